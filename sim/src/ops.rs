//! Operations on the shared screen: every listener call the parser can make, the three
//! dispatch entry points (so the dispatch tables are exercised as shipped), and the
//! embedder-side calls (resize, display, paint).

use memterm::parser_listener::ParserListener;
use memterm::screen::Screen;
use serde::{Deserialize, Serialize};

#[derive(Clone, Debug, PartialEq, Eq, Hash, Serialize, Deserialize)]
pub enum Op {
    Nop,
    AlignmentDisplay,
    DefineCharset(String, String),
    Reset,
    Index,
    Linefeed,
    ReverseIndex,
    SetTabStop,
    SaveCursor,
    RestoreCursor,
    ShiftOut,
    ShiftIn,
    Bell,
    Backspace,
    Tab,
    CarriageReturn,
    Draw(String),
    InsertCharacters(Option<u32>),
    CursorUp(Option<u32>),
    CursorDown(Option<u32>),
    CursorForward(Option<u32>),
    CursorBack(Option<u32>),
    CursorDown1(Option<u32>),
    CursorUp1(Option<u32>),
    CursorToColumn(Option<u32>),
    CursorPosition(Option<u32>, Option<u32>),
    EraseInDisplay(Option<u32>),
    EraseInLine(Option<u32>),
    InsertLines(Option<u32>),
    DeleteLines(Option<u32>),
    DeleteCharacters(Option<u32>),
    EraseCharacters(Option<u32>),
    ReportDeviceAttributes(Option<u32>),
    CursorToLine(Option<u32>),
    ClearTabStop(Option<u32>),
    SetMode(Vec<u32>, bool),
    ResetMode(Vec<u32>, bool),
    Sgr(Vec<u32>),
    SetTitle(String),
    SetIconName(String),
    SetMargins(Option<u32>, Option<u32>),
    // dispatch entry points (what the parser really calls)
    Esc(String),
    Basic(String),
    Csi(String, Vec<u32>, bool),
    // embedder side
    Resize(Option<u32>, Option<u32>),
    Display,
    /// the only correct incremental repaint: display(), read dirty, clear dirty - one critical section
    Paint,
    /// the embedder clears the public dirty set without looking at the screen (legitimate use of
    /// a public field; used by C10 only - it would make C17's renderer lose updates by itself)
    ClearDirty,
}

impl Op {
    pub fn apply(&self, s: &mut Screen) {
        use Op::*;
        match self {
            Nop => {}
            AlignmentDisplay => s.alignment_display(),
            DefineCharset(c, m) => s.define_charset(c, m),
            Reset => s.reset(),
            Index => s.index(),
            Linefeed => s.linefeed(),
            ReverseIndex => s.reverse_index(),
            SetTabStop => s.set_tab_stop(),
            SaveCursor => s.save_cursor(),
            RestoreCursor => s.restore_cursor(),
            ShiftOut => s.shift_out(),
            ShiftIn => s.shift_in(),
            Bell => s.bell(),
            Backspace => s.backspace(),
            Tab => s.tab(),
            CarriageReturn => s.cariage_return(),
            Draw(t) => s.draw(t),
            InsertCharacters(n) => s.insert_characters(*n),
            CursorUp(n) => s.cursor_up(*n),
            CursorDown(n) => s.cursor_down(*n),
            CursorForward(n) => s.cursor_forward(*n),
            CursorBack(n) => s.cursor_back(*n),
            CursorDown1(n) => s.cursor_down1(*n),
            CursorUp1(n) => s.cursor_up1(*n),
            CursorToColumn(n) => s.cursor_to_column(*n),
            CursorPosition(a, b) => s.cursor_position(*a, *b),
            EraseInDisplay(n) => s.erase_in_display(*n, None),
            EraseInLine(n) => s.erase_in_line(*n, None),
            InsertLines(n) => s.insert_lines(*n),
            DeleteLines(n) => s.delete_lines(*n),
            DeleteCharacters(n) => s.delete_characters(*n),
            EraseCharacters(n) => s.erase_characters(*n),
            ReportDeviceAttributes(n) => s.report_device_attributes(*n, None),
            CursorToLine(n) => s.cursor_to_line(*n),
            ClearTabStop(n) => s.clear_tab_stop(*n),
            SetMode(m, p) => s.set_mode(m, *p),
            ResetMode(m, p) => s.reset_mode(m, *p),
            Sgr(a) => s.select_graphic_rendition(a),
            SetTitle(t) => s.set_title(t),
            SetIconName(t) => s.set_icon_name(t),
            SetMargins(a, b) => s.set_margins(*a, *b),
            Esc(c) => s.escape_dispatch(c),
            Basic(c) => s.basic_dispatch(c),
            Csi(c, p, pr) => s.csi_dispatch(c, p, *pr),
            Resize(l, c) => s.resize(*l, *c),
            Display => {
                let _ = s.display();
            }
            Paint => {
                let _ = s.display();
                s.dirty.clear();
            }
            ClearDirty => s.dirty.clear(),
        }
    }

    /// The leaf operation a dispatch call must perform according to the *documented*
    /// tables (own copy, DESIGN 8.1). Leaf operations map to themselves.
    pub fn lower(&self) -> Op {
        use Op::*;
        let first = |p: &Vec<u32>| p.first().copied();
        match self {
            Esc(c) => match c.as_str() {
                "c" => Reset,
                "D" => Index,
                "E" => Linefeed,
                "M" => ReverseIndex,
                "H" => SetTabStop,
                "7" => SaveCursor,
                "8" => RestoreCursor,
                _ => Nop,
            },
            Basic(c) => match c.as_str() {
                "\x07" => Bell,
                "\x08" => Backspace,
                "\x09" => Tab,
                "\x0a" | "\x0b" | "\x0c" => Linefeed,
                "\x0d" => CarriageReturn,
                "\x0e" => ShiftOut,
                "\x0f" => ShiftIn,
                _ => Nop,
            },
            Csi(c, p, private) => match c.as_str() {
                "@" => InsertCharacters(first(p)),
                "A" => CursorUp(first(p)),
                "B" => CursorDown(first(p)),
                "C" => CursorForward(first(p)),
                "D" => CursorBack(first(p)),
                "E" => CursorDown1(first(p)),
                "F" => CursorUp1(first(p)),
                "G" => CursorToColumn(first(p)),
                "H" | "f" => CursorPosition(p.first().copied(), p.get(1).copied()),
                "J" => EraseInDisplay(first(p)),
                "K" => EraseInLine(first(p)),
                "L" => InsertLines(first(p)),
                "M" => DeleteLines(first(p)),
                "P" => DeleteCharacters(first(p)),
                "X" => EraseCharacters(first(p)),
                "a" => CursorForward(first(p)),
                "c" => ReportDeviceAttributes(first(p)),
                "d" => CursorToLine(first(p)),
                "e" => CursorDown(first(p)),
                "g" => ClearTabStop(first(p)),
                "h" => SetMode(p.clone(), *private),
                "l" => ResetMode(p.clone(), *private),
                "m" => Sgr(p.clone()),
                "r" => SetMargins(p.first().copied(), p.get(1).copied()),
                _ => Nop,
            },
            other => other.clone(),
        }
    }

    /// Normal form used when comparing event lists: Some(0) == None for optional numeric
    /// arguments, zeros dropped from SM/RM lists.
    pub fn normal(&self) -> Op {
        use Op::*;
        let z = |n: &Option<u32>| match n {
            Some(0) => None,
            x => *x,
        };
        match self {
            InsertCharacters(n) => InsertCharacters(z(n)),
            CursorUp(n) => CursorUp(z(n)),
            CursorDown(n) => CursorDown(z(n)),
            CursorForward(n) => CursorForward(z(n)),
            CursorBack(n) => CursorBack(z(n)),
            CursorDown1(n) => CursorDown1(z(n)),
            CursorUp1(n) => CursorUp1(z(n)),
            CursorToColumn(n) => CursorToColumn(z(n)),
            CursorPosition(a, b) => CursorPosition(z(a), z(b)),
            EraseInDisplay(n) => EraseInDisplay(z(n)),
            EraseInLine(n) => EraseInLine(z(n)),
            InsertLines(n) => InsertLines(z(n)),
            DeleteLines(n) => DeleteLines(z(n)),
            DeleteCharacters(n) => DeleteCharacters(z(n)),
            EraseCharacters(n) => EraseCharacters(z(n)),
            ReportDeviceAttributes(n) => ReportDeviceAttributes(z(n)),
            CursorToLine(n) => CursorToLine(z(n)),
            ClearTabStop(n) => ClearTabStop(z(n)),
            SetMargins(a, b) => SetMargins(z(a), z(b)),
            SetMode(m, p) => SetMode(m.iter().copied().filter(|x| *x != 0).collect(), *p),
            ResetMode(m, p) => ResetMode(m.iter().copied().filter(|x| *x != 0).collect(), *p),
            Sgr(a) => {
                if a.is_empty() {
                    Sgr(vec![0])
                } else {
                    Sgr(a.clone())
                }
            }
            other => other.clone(),
        }
    }

    pub fn name(&self) -> &'static str {
        use Op::*;
        match self {
            Nop => "nop",
            AlignmentDisplay => "alignment_display",
            DefineCharset(..) => "define_charset",
            Reset => "reset",
            Index => "index",
            Linefeed => "linefeed",
            ReverseIndex => "reverse_index",
            SetTabStop => "set_tab_stop",
            SaveCursor => "save_cursor",
            RestoreCursor => "restore_cursor",
            ShiftOut => "shift_out",
            ShiftIn => "shift_in",
            Bell => "bell",
            Backspace => "backspace",
            Tab => "tab",
            CarriageReturn => "cariage_return",
            Draw(_) => "draw",
            InsertCharacters(_) => "insert_characters",
            CursorUp(_) => "cursor_up",
            CursorDown(_) => "cursor_down",
            CursorForward(_) => "cursor_forward",
            CursorBack(_) => "cursor_back",
            CursorDown1(_) => "cursor_down1",
            CursorUp1(_) => "cursor_up1",
            CursorToColumn(_) => "cursor_to_column",
            CursorPosition(..) => "cursor_position",
            EraseInDisplay(_) => "erase_in_display",
            EraseInLine(_) => "erase_in_line",
            InsertLines(_) => "insert_lines",
            DeleteLines(_) => "delete_lines",
            DeleteCharacters(_) => "delete_characters",
            EraseCharacters(_) => "erase_characters",
            ReportDeviceAttributes(_) => "report_device_attributes",
            CursorToLine(_) => "cursor_to_line",
            ClearTabStop(_) => "clear_tab_stop",
            SetMode(..) => "set_mode",
            ResetMode(..) => "reset_mode",
            Sgr(_) => "select_graphic_rendition",
            SetTitle(_) => "set_title",
            SetIconName(_) => "set_icon_name",
            SetMargins(..) => "set_margins",
            Esc(_) => "escape_dispatch",
            Basic(_) => "basic_dispatch",
            Csi(..) => "csi_dispatch",
            Resize(..) => "resize",
            Display => "display",
            Paint => "paint",
            ClearDirty => "clear_dirty",
        }
    }
}

/// Recording listener. `raw = false` (leaf mode): inherits the shipped dispatch tables and
/// records the leaf calls they make. `raw = true`: records the dispatch calls themselves.
pub struct Tap {
    pub raw: bool,
    pub events: Vec<Op>,
}

impl Tap {
    pub fn new(raw: bool) -> Self {
        Tap { raw, events: Vec::new() }
    }
    fn rec(&mut self, op: Op) {
        self.events.push(op);
    }
}

impl ParserListener for Tap {
    fn alignment_display(&mut self) {
        self.rec(Op::AlignmentDisplay)
    }
    fn define_charset(&mut self, code: &str, mode: &str) {
        self.rec(Op::DefineCharset(code.to_owned(), mode.to_owned()))
    }
    fn reset(&mut self) {
        self.rec(Op::Reset)
    }
    fn index(&mut self) {
        self.rec(Op::Index)
    }
    fn linefeed(&mut self) {
        self.rec(Op::Linefeed)
    }
    fn reverse_index(&mut self) {
        self.rec(Op::ReverseIndex)
    }
    fn set_tab_stop(&mut self) {
        self.rec(Op::SetTabStop)
    }
    fn save_cursor(&mut self) {
        self.rec(Op::SaveCursor)
    }
    fn restore_cursor(&mut self) {
        self.rec(Op::RestoreCursor)
    }
    fn shift_out(&mut self) {
        self.rec(Op::ShiftOut)
    }
    fn shift_in(&mut self) {
        self.rec(Op::ShiftIn)
    }
    fn bell(&mut self) {
        self.rec(Op::Bell)
    }
    fn backspace(&mut self) {
        self.rec(Op::Backspace)
    }
    fn tab(&mut self) {
        self.rec(Op::Tab)
    }
    fn cariage_return(&mut self) {
        self.rec(Op::CarriageReturn)
    }
    fn draw(&mut self, input: &str) {
        self.rec(Op::Draw(input.to_owned()))
    }
    fn insert_characters(&mut self, count: Option<u32>) {
        self.rec(Op::InsertCharacters(count))
    }
    fn cursor_up(&mut self, count: Option<u32>) {
        self.rec(Op::CursorUp(count))
    }
    fn cursor_down(&mut self, count: Option<u32>) {
        self.rec(Op::CursorDown(count))
    }
    fn cursor_forward(&mut self, count: Option<u32>) {
        self.rec(Op::CursorForward(count))
    }
    fn cursor_back(&mut self, count: Option<u32>) {
        self.rec(Op::CursorBack(count))
    }
    fn cursor_down1(&mut self, count: Option<u32>) {
        self.rec(Op::CursorDown1(count))
    }
    fn cursor_up1(&mut self, count: Option<u32>) {
        self.rec(Op::CursorUp1(count))
    }
    fn cursor_to_column(&mut self, character: Option<u32>) {
        self.rec(Op::CursorToColumn(character))
    }
    fn cursor_position(&mut self, line: Option<u32>, character: Option<u32>) {
        self.rec(Op::CursorPosition(line, character))
    }
    fn erase_in_display(&mut self, how: Option<u32>, _private: Option<bool>) {
        self.rec(Op::EraseInDisplay(how))
    }
    fn erase_in_line(&mut self, how: Option<u32>, _private: Option<bool>) {
        self.rec(Op::EraseInLine(how))
    }
    fn insert_lines(&mut self, count: Option<u32>) {
        self.rec(Op::InsertLines(count))
    }
    fn delete_lines(&mut self, count: Option<u32>) {
        self.rec(Op::DeleteLines(count))
    }
    fn delete_characters(&mut self, count: Option<u32>) {
        self.rec(Op::DeleteCharacters(count))
    }
    fn erase_characters(&mut self, count: Option<u32>) {
        self.rec(Op::EraseCharacters(count))
    }
    fn report_device_attributes(&mut self, mode: Option<u32>, _private: Option<bool>) {
        self.rec(Op::ReportDeviceAttributes(mode))
    }
    fn cursor_to_line(&mut self, line: Option<u32>) {
        self.rec(Op::CursorToLine(line))
    }
    fn clear_tab_stop(&mut self, how: Option<u32>) {
        self.rec(Op::ClearTabStop(how))
    }
    fn set_mode(&mut self, modes: &[u32], is_private: bool) {
        self.rec(Op::SetMode(modes.to_vec(), is_private))
    }
    fn reset_mode(&mut self, modes: &[u32], is_private: bool) {
        self.rec(Op::ResetMode(modes.to_vec(), is_private))
    }
    fn select_graphic_rendition(&mut self, modes: &[u32]) {
        self.rec(Op::Sgr(modes.to_vec()))
    }
    fn set_title(&mut self, title: &str) {
        self.rec(Op::SetTitle(title.to_owned()))
    }
    fn set_icon_name(&mut self, icon_name: &str) {
        self.rec(Op::SetIconName(icon_name.to_owned()))
    }
    fn set_margins(&mut self, top: Option<u32>, bottom: Option<u32>) {
        self.rec(Op::SetMargins(top, bottom))
    }
    fn display(&mut self) -> Vec<String> {
        Vec::new()
    }

    fn escape_dispatch(&mut self, escape_command: &str) {
        if self.raw {
            self.rec(Op::Esc(escape_command.to_owned()));
        } else {
            // the shipped default table (same body as the trait default; a trait default
            // cannot be called once overridden, so leaf mode uses LeafTap below)
            unreachable!("leaf mode uses LeafTap")
        }
    }
    fn basic_dispatch(&mut self, basic_command: &str) {
        if self.raw {
            self.rec(Op::Basic(basic_command.to_owned()));
        } else {
            unreachable!("leaf mode uses LeafTap")
        }
    }
    fn csi_dispatch(&mut self, csi_command: &str, params: &[u32], is_private: bool) {
        if self.raw {
            self.rec(Op::Csi(csi_command.to_owned(), params.to_vec(), is_private));
        } else {
            unreachable!("leaf mode uses LeafTap")
        }
    }
}

/// Leaf-mode tap: does NOT override the dispatch methods, so the shipped
/// escape_dispatch / basic_dispatch / csi_dispatch tables run and their leaf calls are recorded.
pub struct LeafTap {
    pub inner: Tap,
}

impl LeafTap {
    pub fn new() -> Self {
        LeafTap { inner: Tap::new(false) }
    }
}

macro_rules! fwd {
    ($( fn $name:ident ( $( $arg:ident : $ty:ty ),* ) ; )*) => {
        $( fn $name(&mut self, $( $arg : $ty ),* ) { self.inner.$name($( $arg ),*) } )*
    };
}

impl ParserListener for LeafTap {
    fwd! {
        fn alignment_display();
        fn define_charset(code: &str, mode: &str);
        fn reset();
        fn index();
        fn linefeed();
        fn reverse_index();
        fn set_tab_stop();
        fn save_cursor();
        fn restore_cursor();
        fn shift_out();
        fn shift_in();
        fn bell();
        fn backspace();
        fn tab();
        fn cariage_return();
        fn draw(input: &str);
        fn insert_characters(count: Option<u32>);
        fn cursor_up(count: Option<u32>);
        fn cursor_down(count: Option<u32>);
        fn cursor_forward(count: Option<u32>);
        fn cursor_back(count: Option<u32>);
        fn cursor_down1(count: Option<u32>);
        fn cursor_up1(count: Option<u32>);
        fn cursor_to_column(character: Option<u32>);
        fn cursor_position(line: Option<u32>, character: Option<u32>);
        fn erase_in_display(how: Option<u32>, private: Option<bool>);
        fn erase_in_line(how: Option<u32>, private: Option<bool>);
        fn insert_lines(count: Option<u32>);
        fn delete_lines(count: Option<u32>);
        fn delete_characters(count: Option<u32>);
        fn erase_characters(count: Option<u32>);
        fn report_device_attributes(mode: Option<u32>, private: Option<bool>);
        fn cursor_to_line(line: Option<u32>);
        fn clear_tab_stop(how: Option<u32>);
        fn set_mode(modes: &[u32], is_private: bool);
        fn reset_mode(modes: &[u32], is_private: bool);
        fn select_graphic_rendition(modes: &[u32]);
        fn set_title(title: &str);
        fn set_icon_name(icon_name: &str);
        fn set_margins(top: Option<u32>, bottom: Option<u32>);
    }
    fn display(&mut self) -> Vec<String> {
        Vec::new()
    }
}
