//! A run is a trace, not a seed: generation expands the seed into this concrete, replayable
//! object; execution is a pure function of the trace and the code in /repo.

use serde::{Deserialize, Serialize};

use crate::ops::Op;

#[derive(Clone, Copy, Debug, PartialEq, Eq, Serialize, Deserialize)]
pub enum Wiring {
    /// production: ByteParser/Parser -> Arc<Mutex<Screen>>, foreign actors between feed() calls
    P,
    /// event-queue seam: parser -> recording Tap -> simulator applies events one by one
    Q,
}

#[derive(Clone, Copy, Debug, PartialEq, Eq, Serialize, Deserialize)]
pub enum Front {
    /// memterm::ByteParser::feed(&[u8])
    Bytes,
    /// memterm::parser::Parser::feed(String) (Feed bytes must be valid UTF-8, cut at char boundaries)
    Chars,
}

#[derive(Clone, Debug, PartialEq, Eq, Serialize, Deserialize)]
pub enum Step {
    /// Feeder delivers one chunk (hex)
    Feed(#[serde(with = "hexbytes")] Vec<u8>),
    /// Feeder applies up to n queued listener events to the screen (wiring Q)
    Apply(u32),
    /// Renderer
    Paint,
    /// a bare display() call by the embedder
    Display,
    /// Resizer
    Resize(u32, u32),
    /// Operator
    Api(Op),
    /// Feeder calls ByteParser::select_other_charset(code) between chunks
    Charset(String),
}

#[derive(Clone, Debug, PartialEq, Eq, Serialize, Deserialize)]
pub struct Trace {
    pub prop: String,
    pub seed: u64,
    pub index: u64,
    pub kind: String,
    pub columns: u32,
    pub lines: u32,
    pub front: Front,
    pub utf8: bool,
    pub wiring: Wiring,
    pub steps: Vec<Step>,
    /// property-specific perturbation (C10: op indices after which display() is interposed
    /// on the twin screen; C02: unused)
    #[serde(default)]
    pub extra: Vec<u32>,
    /// fault kinds that fired while this trace was generated (evidence only)
    #[serde(default)]
    pub faults: Vec<(String, u32)>,
}

impl Trace {
    pub fn bytes_total(&self) -> usize {
        self.steps
            .iter()
            .map(|s| if let Step::Feed(b) = s { b.len() } else { 0 })
            .sum()
    }
    pub fn to_json(&self) -> String {
        serde_json::to_string(self).expect("trace to json")
    }
    pub fn from_json(s: &str) -> Result<Trace, String> {
        serde_json::from_str(s).map_err(|e| e.to_string())
    }
    /// short printable form for evidence samples
    pub fn summary(&self) -> serde_json::Value {
        let steps: Vec<String> = self
            .steps
            .iter()
            .take(40)
            .map(|s| match s {
                Step::Feed(b) => format!("feed {:?}", String::from_utf8_lossy(b)),
                Step::Apply(n) => format!("apply {}", n),
                Step::Paint => "paint".to_owned(),
                Step::Display => "display".to_owned(),
                Step::Resize(l, c) => format!("resize {}x{}", l, c),
                Step::Api(op) => format!("api {:?}", op),
                Step::Charset(c) => format!("charset {}", c),
            })
            .collect();
        serde_json::json!({
            "seed": self.seed, "index": self.index, "kind": self.kind,
            "size": format!("{}x{} (cols x lines)", self.columns, self.lines),
            "front": format!("{:?}", self.front), "utf8": self.utf8,
            "wiring": format!("{:?}", self.wiring),
            "n_steps": self.steps.len(), "steps_head": steps, "extra": self.extra,
        })
    }
}

mod hexbytes {
    use serde::{Deserialize, Deserializer, Serializer};
    pub fn serialize<S: Serializer>(b: &Vec<u8>, s: S) -> Result<S::Ok, S::Error> {
        let mut out = String::with_capacity(b.len() * 2);
        for x in b {
            out.push_str(&format!("{:02x}", x));
        }
        s.serialize_str(&out)
    }
    pub fn deserialize<'de, D: Deserializer<'de>>(d: D) -> Result<Vec<u8>, D::Error> {
        let s = String::deserialize(d)?;
        let mut out = Vec::with_capacity(s.len() / 2);
        let b = s.as_bytes();
        let mut i = 0;
        while i + 1 < b.len() {
            let h = (b[i] as char).to_digit(16).ok_or_else(|| serde::de::Error::custom("hex"))?;
            let l = (b[i + 1] as char).to_digit(16).ok_or_else(|| serde::de::Error::custom("hex"))?;
            out.push((h * 16 + l) as u8);
            i += 2;
        }
        Ok(out)
    }
}

/// A property violation found while executing a trace.
#[derive(Clone, Debug, PartialEq, Eq, Serialize, Deserialize)]
pub struct Violation {
    pub prop: String,
    /// stable rule tag, e.g. "C05/cursor_up/post_state" - used for minimisation (same class must
    /// persist) and for matching known findings
    pub class: String,
    pub detail: String,
    /// index of the atomic operation (or step) at which it was observed
    pub at: u64,
    /// when the check enumerated sub-cases of the trace (all cuts, all truncation points), the
    /// concrete failing case; the reporter substitutes it before minimising
    #[serde(default, skip_serializing_if = "Option::is_none")]
    pub concrete: Option<Box<Trace>>,
}

impl Violation {
    pub fn new(prop: &str, class: impl Into<String>, detail: impl Into<String>, at: u64) -> Self {
        Violation { prop: prop.to_owned(), class: class.into(), detail: detail.into(), at, concrete: None }
    }
}
