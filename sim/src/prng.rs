//! Seeded PRNG: splitmix64 seeding + xoshiro256**. Everything the simulator decides
//! is derived from one integer through this module; nothing here reads a clock.

#[derive(Clone, Debug)]
pub struct Rng {
    s: [u64; 4],
}

pub fn splitmix(x: &mut u64) -> u64 {
    *x = x.wrapping_add(0x9E37_79B9_7F4A_7C15);
    let mut z = *x;
    z = (z ^ (z >> 30)).wrapping_mul(0xBF58_476D_1CE4_E5B9);
    z = (z ^ (z >> 27)).wrapping_mul(0x94D0_49BB_1331_11EB);
    z ^ (z >> 31)
}

pub fn hash_str(s: &str) -> u64 {
    // FNV-1a, then one splitmix round
    let mut h: u64 = 0xcbf2_9ce4_8422_2325;
    for b in s.bytes() {
        h ^= b as u64;
        h = h.wrapping_mul(0x1000_0000_01b3);
    }
    let mut x = h;
    splitmix(&mut x)
}

pub fn hash_bytes(seed: u64, s: &[u8]) -> u64 {
    let mut h: u64 = 0xcbf2_9ce4_8422_2325 ^ seed;
    for b in s {
        h ^= *b as u64;
        h = h.wrapping_mul(0x1000_0000_01b3);
    }
    let mut x = h;
    splitmix(&mut x)
}

impl Rng {
    pub fn new(seed: u64) -> Self {
        let mut x = seed;
        let s = [splitmix(&mut x), splitmix(&mut x), splitmix(&mut x), splitmix(&mut x)];
        Rng { s }
    }

    /// Independent sub-stream for a purpose tag: shrinking one dimension does not
    /// re-roll the others.
    pub fn fork(&self, tag: &str) -> Rng {
        Rng::new(self.s[0] ^ self.s[2].rotate_left(17) ^ hash_str(tag))
    }

    pub fn next(&mut self) -> u64 {
        let r = self.s[1].wrapping_mul(5).rotate_left(7).wrapping_mul(9);
        let t = self.s[1] << 17;
        self.s[2] ^= self.s[0];
        self.s[3] ^= self.s[1];
        self.s[1] ^= self.s[2];
        self.s[0] ^= self.s[3];
        self.s[2] ^= t;
        self.s[3] = self.s[3].rotate_left(45);
        r
    }

    /// uniform in 0..n (n > 0)
    pub fn below(&mut self, n: u64) -> u64 {
        debug_assert!(n > 0);
        // multiply-shift; bias is irrelevant here
        ((self.next() as u128 * n as u128) >> 64) as u64
    }

    pub fn range(&mut self, lo: u64, hi_incl: u64) -> u64 {
        lo + self.below(hi_incl - lo + 1)
    }

    pub fn chance(&mut self, num: u64, den: u64) -> bool {
        self.below(den) < num
    }

    pub fn pick<'a, T>(&mut self, xs: &'a [T]) -> &'a T {
        &xs[self.below(xs.len() as u64) as usize]
    }

    /// index drawn with the given weights
    pub fn weighted(&mut self, w: &[u32]) -> usize {
        let total: u64 = w.iter().map(|x| *x as u64).sum();
        debug_assert!(total > 0);
        let mut r = self.below(total);
        for (i, x) in w.iter().enumerate() {
            if r < *x as u64 {
                return i;
            }
            r -= *x as u64;
        }
        w.len() - 1
    }
}
