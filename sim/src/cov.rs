//! Coverage accounting: counters, exact set of run signatures, HyperLogLog estimates for the
//! (much larger) sets of abstract states and interleavings. All mergeable across workers.

use std::collections::{BTreeMap, HashSet};

use serde::{Deserialize, Serialize};

const HLL_BITS: u32 = 14;
const HLL_M: usize = 1 << HLL_BITS;

#[derive(Clone, Serialize, Deserialize)]
pub struct Hll {
    #[serde(with = "regs")]
    r: Vec<u8>,
}

mod regs {
    use serde::{Deserialize, Deserializer, Serializer};
    pub fn serialize<S: Serializer>(b: &Vec<u8>, s: S) -> Result<S::Ok, S::Error> {
        // registers are < 64: one printable char each
        let st: String = b.iter().map(|x| (b'0' + *x) as char).collect();
        s.serialize_str(&st)
    }
    pub fn deserialize<'de, D: Deserializer<'de>>(d: D) -> Result<Vec<u8>, D::Error> {
        let s = String::deserialize(d)?;
        Ok(s.bytes().map(|b| b - b'0').collect())
    }
}

impl Default for Hll {
    fn default() -> Self {
        Hll { r: vec![0; HLL_M] }
    }
}

impl Hll {
    pub fn add(&mut self, h: u64) {
        let mut x = h;
        let h = crate::prng::splitmix(&mut x);
        let idx = (h >> (64 - HLL_BITS)) as usize;
        let w = h << HLL_BITS;
        let rank = (w.leading_zeros() + 1).min(64 - HLL_BITS + 1) as u8;
        if self.r[idx] < rank {
            self.r[idx] = rank;
        }
    }
    pub fn merge(&mut self, o: &Hll) {
        for i in 0..HLL_M {
            if o.r[i] > self.r[i] {
                self.r[i] = o.r[i];
            }
        }
    }
    pub fn estimate(&self) -> u64 {
        let m = HLL_M as f64;
        let alpha = 0.7213 / (1.0 + 1.079 / m);
        let mut sum = 0.0;
        let mut zeros = 0;
        for v in &self.r {
            sum += 2f64.powi(-(*v as i32));
            if *v == 0 {
                zeros += 1;
            }
        }
        let e = alpha * m * m / sum;
        if e <= 2.5 * m && zeros > 0 {
            (m * (m / zeros as f64).ln()) as u64
        } else {
            e as u64
        }
    }
}

#[derive(Clone, Default, Serialize, Deserialize)]
pub struct Coverage {
    pub counters: BTreeMap<String, u64>,
    #[serde(skip)]
    pub run_sigs: HashSet<u64>,
    pub states: Hll,
    pub interleavings: Hll,
    /// small exact sets (e.g. SGR codes hit, table entries hit), keyed by name
    pub sets: BTreeMap<String, HashSet<u64>>,
    pub samples: Vec<serde_json::Value>,
    /// set by a check: was the oracle of this property evaluated on a non-trivial case in the
    /// run just executed (the property's own rule, see its `rule` text)
    #[serde(skip)]
    pub nontrivial: Option<bool>,
}

impl Coverage {
    pub fn hit(&mut self, k: &str) {
        self.add(k, 1);
    }
    pub fn add(&mut self, k: &str, n: u64) {
        if let Some(v) = self.counters.get_mut(k) {
            *v += n;
        } else {
            self.counters.insert(k.to_owned(), n);
        }
    }
    pub fn set_insert(&mut self, k: &str, v: u64) {
        if let Some(s) = self.sets.get_mut(k) {
            s.insert(v);
        } else {
            let mut s = HashSet::new();
            s.insert(v);
            self.sets.insert(k.to_owned(), s);
        }
    }
    pub fn get(&self, k: &str) -> u64 {
        self.counters.get(k).copied().unwrap_or(0)
    }
    pub fn merge(&mut self, o: Coverage) {
        for (k, v) in o.counters {
            self.add(&k, v);
        }
        self.run_sigs.extend(o.run_sigs);
        self.states.merge(&o.states);
        self.interleavings.merge(&o.interleavings);
        for (k, s) in o.sets {
            self.sets.entry(k).or_default().extend(s);
        }
        for s in o.samples {
            if self.samples.len() < 4 {
                self.samples.push(s);
            }
        }
    }
}
