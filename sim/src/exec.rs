//! Executors for the two wirings (DESIGN 2.2). Both run the shipped recogniser, decoder and
//! screen; only the scheduling of who touches the screen next is the simulator's.

use std::collections::VecDeque;
use std::sync::{Arc, Mutex};

use memterm::byte_parser::ByteParser;
use memterm::parser::Parser;
use memterm::parser_listener::ParserListener;
use memterm::screen::Screen;

use crate::ops::{Op, Tap};
use crate::prng::splitmix;
use crate::snap::Snapshot;
use crate::trace::{Front, Step, Trace, Violation, Wiring};

#[derive(Clone, Copy, Debug, PartialEq, Eq)]
pub enum Actor {
    Feeder,
    Renderer,
    Resizer,
    Operator,
}

pub enum FrontEnd<L: ParserListener + Send + 'static> {
    Bytes(ByteParser<'static, L>),
    Chars(Parser<'static, L>),
}

impl<L: ParserListener + Send + 'static> FrontEnd<L> {
    pub fn new(front: Front, utf8: bool, listener: Arc<Mutex<L>>) -> Self {
        match front {
            Front::Bytes => {
                let mut p = ByteParser::new(listener);
                if !utf8 {
                    p.select_other_charset("@");
                }
                FrontEnd::Bytes(p)
            }
            Front::Chars => {
                let mut p = Parser::new(listener);
                if !utf8 {
                    p.set_use_utf8(false);
                }
                FrontEnd::Chars(p)
            }
        }
    }
    pub fn feed(&mut self, data: &[u8]) {
        match self {
            FrontEnd::Bytes(p) => p.feed(data),
            FrontEnd::Chars(p) => p.feed(String::from_utf8_lossy(data).into_owned()),
        }
    }
    pub fn charset(&mut self, code: &str) {
        match self {
            FrontEnd::Bytes(p) => p.select_other_charset(code),
            FrontEnd::Chars(p) => match code {
                "@" => p.set_use_utf8(false),
                "G" | "8" => p.set_use_utf8(true),
                _ => {}
            },
        }
    }
}

pub struct StepCtx<'a> {
    /// index of this atomic operation in the run
    pub idx: u64,
    pub actor: Actor,
    /// the operation applied (wiring Q and foreign steps); Nop for a whole chunk in wiring P
    pub op: &'a Op,
    /// wiring P only: the chunk that was fed
    pub chunk: Option<&'a [u8]>,
    pub pre: &'a Snapshot,
    pub post: &'a Snapshot,
    pub screen: &'a Screen,
}

pub trait Observer {
    fn init(&mut self, _screen: &Screen, _snap: &Snapshot) -> Result<(), Violation> {
        Ok(())
    }
    /// does the oracle need pre/post snapshots for this operation? (performance only: when
    /// false, `pre`/`post` in StepCtx are stale and must not be read)
    fn needs_snap(&self, _actor: Actor, _op: &Op, _screen: &Screen) -> bool {
        true
    }
    /// called before an operation is applied (lets an oracle copy the pre-state screen)
    fn before(&mut self, _idx: u64, _actor: Actor, _op: &Op, _screen: &Screen) {}
    fn step(&mut self, ctx: &StepCtx) -> Result<(), Violation>;
    fn end(&mut self, _screen: &Screen, _snap: &Snapshot) -> Result<(), Violation> {
        Ok(())
    }
}

#[derive(Default, Clone, Debug)]
pub struct RunStats {
    pub ops: u64,
    pub events: u64,
    pub chunks: u64,
    pub bytes: u64,
    pub foreign: u64,
    pub midchunk_foreign: u64,
    /// hash of the actor order (interleaving signature)
    pub schedule_sig: u64,
    pub state_hashes: Vec<u64>,
    pub hidden_cells_seen: bool,
    pub final_hash: u64,
    /// the trace's own operations (injected ones not counted)
    pub own_ops: u64,
}

fn actor_of(step: &Step) -> Actor {
    match step {
        Step::Feed(_) | Step::Apply(_) | Step::Charset(_) => Actor::Feeder,
        Step::Paint | Step::Display => Actor::Renderer,
        Step::Resize(..) => Actor::Resizer,
        Step::Api(_) => Actor::Operator,
    }
}

fn foreign_op(step: &Step) -> Option<Op> {
    match step {
        Step::Paint => Some(Op::Paint),
        Step::Display => Some(Op::Display),
        Step::Resize(l, c) => Some(Op::Resize(Some(*l), Some(*c))),
        Step::Api(op) => Some(op.clone()),
        _ => None,
    }
}

/// Wiring Q: the parser drives a raw-mode Tap; the simulator applies the recorded dispatch
/// calls to the real Screen through the screen's own dispatch methods, one at a time, and lets
/// the other actors in between.
pub fn run_q(trace: &Trace, obs: &mut dyn Observer) -> Result<(RunStats, Screen), Violation> {
    run_q_inject(trace, obs, &[])
}

/// Like run_q, with extra foreign operations injected right before the trace's own operation
/// number k (counting only the trace's own operations); k = number of operations means "at the
/// end". Used to enumerate the position of an asynchronous event completely.
pub fn run_q_inject(
    trace: &Trace,
    obs: &mut dyn Observer,
    inject: &[(u64, Op)],
) -> Result<(RunStats, Screen), Violation> {
    let tap = Arc::new(Mutex::new(Tap::new(true)));
    let mut fe = FrontEnd::new(trace.front, trace.utf8, tap.clone());
    let mut queue: VecDeque<Op> = VecDeque::new();
    let mut screen = Screen::new(trace.columns, trace.lines);
    let mut stats = RunStats::default();
    let mut cur = Snapshot::take(&screen);
    let mut cur_valid = true;
    obs.init(&screen, &cur)?;
    let mut idx: u64 = 0;
    let mut sig: u64 = 0x5151;

    let mut own: u64 = 0;
    macro_rules! apply {
        ($actor:expr, $op:expr) => {{
            for (k, iop) in inject.iter() {
                if *k == own {
                    apply_one!(Actor::Resizer, iop);
                }
            }
            own += 1;
            apply_one!($actor, $op);
        }};
    }
    macro_rules! apply_one {
        ($actor:expr, $op:expr) => {{
            let op: &Op = $op;
            let need = obs.needs_snap($actor, op, &screen);
            if need && !cur_valid {
                cur = Snapshot::take(&screen);
            }
            obs.before(idx, $actor, op, &screen);
            set_current_op(op.lower().name());
            op.apply(&mut screen);
            set_current_op("");
            let r;
            if need {
                let post = Snapshot::take_from(&screen, Some(&cur));
                r = obs.step(&StepCtx {
                    idx,
                    actor: $actor,
                    op,
                    chunk: None,
                    pre: &cur,
                    post: &post,
                    screen: &screen,
                });
                if post.hidden_cells > 0 {
                    stats.hidden_cells_seen = true;
                }
                stats.state_hashes.push(post.hash());
                cur = post;
                cur_valid = true;
            } else {
                r = obs.step(&StepCtx {
                    idx,
                    actor: $actor,
                    op,
                    chunk: None,
                    pre: &cur,
                    post: &cur,
                    screen: &screen,
                });
                cur_valid = false;
            }
            idx += 1;
            stats.ops += 1;
            sig ^= $actor as u64 + 1;
            sig = splitmix(&mut sig);
            r?;
        }};
    }

    for step in &trace.steps {
        match step {
            Step::Feed(b) => {
                set_current_op("feed");
                fe.feed(b);
                set_current_op("");
                stats.chunks += 1;
                stats.bytes += b.len() as u64;
                let mut t = tap.lock().unwrap();
                stats.events += t.events.len() as u64;
                queue.extend(t.events.drain(..));
            }
            Step::Charset(c) => fe.charset(c),
            Step::Apply(n) => {
                for _ in 0..*n {
                    match queue.pop_front() {
                        Some(op) => apply!(Actor::Feeder, &op),
                        None => break,
                    }
                }
            }
            other => {
                let op = foreign_op(other).unwrap();
                stats.foreign += 1;
                if !queue.is_empty() {
                    stats.midchunk_foreign += 1;
                }
                apply!(actor_of(other), &op);
            }
        }
    }
    while let Some(op) = queue.pop_front() {
        apply!(Actor::Feeder, &op);
    }
    for (k, iop) in inject.iter() {
        if *k >= own {
            apply_one!(Actor::Resizer, iop);
        }
    }
    stats.own_ops = own;
    if !cur_valid {
        cur = Snapshot::take(&screen);
    }
    obs.end(&screen, &cur)?;
    stats.schedule_sig = sig;
    stats.final_hash = cur.hash();
    Ok((stats, screen))
}

/// Wiring P: production wiring. Foreign actors take the real mutex between feed() calls.
pub fn run_p(trace: &Trace, obs: &mut dyn Observer) -> Result<(RunStats, Arc<Mutex<Screen>>), Violation> {
    let screen = Arc::new(Mutex::new(Screen::new(trace.columns, trace.lines)));
    let mut fe = FrontEnd::new(trace.front, trace.utf8, screen.clone());
    let mut stats = RunStats::default();
    let mut cur = Snapshot::take(&screen.lock().unwrap());
    obs.init(&screen.lock().unwrap(), &cur)?;
    let mut idx: u64 = 0;
    let mut sig: u64 = 0x5050;
    let nop = Op::Nop;
    for step in &trace.steps {
        match step {
            Step::Feed(b) => {
                set_current_op("feed");
                fe.feed(b);
                set_current_op("");
                stats.chunks += 1;
                stats.bytes += b.len() as u64;
                let g = screen.lock().map_err(|_| {
                    Violation::new(&trace.prop, "C01/poisoned", "listener mutex poisoned after feed", idx)
                })?;
                let r;
                if obs.needs_snap(Actor::Feeder, &nop, &g) {
                    let post = Snapshot::take(&g);
                    r = obs.step(&StepCtx {
                        idx,
                        actor: Actor::Feeder,
                        op: &nop,
                        chunk: Some(b),
                        pre: &cur,
                        post: &post,
                        screen: &g,
                    });
                    stats.state_hashes.push(post.hash());
                    if post.hidden_cells > 0 {
                        stats.hidden_cells_seen = true;
                    }
                    cur = post;
                } else {
                    r = obs.step(&StepCtx {
                        idx,
                        actor: Actor::Feeder,
                        op: &nop,
                        chunk: Some(b),
                        pre: &cur,
                        post: &cur,
                        screen: &g,
                    });
                }
                drop(g);
                r?;
            }
            Step::Charset(c) => fe.charset(c),
            Step::Apply(_) => {}
            other => {
                let op = foreign_op(other).unwrap();
                stats.foreign += 1;
                let mut g = screen.lock().map_err(|_| {
                    Violation::new(&trace.prop, "C01/poisoned", "listener mutex poisoned", idx)
                })?;
                let need = obs.needs_snap(actor_of(other), &op, &g);
                if need {
                    // wiring P oracles that need snapshots need them at every step
                    cur = Snapshot::take(&g);
                }
                obs.before(idx, actor_of(other), &op, &g);
                set_current_op(op.lower().name());
                op.apply(&mut g);
                set_current_op("");
                let r;
                if need {
                    let post = Snapshot::take(&g);
                    r = obs.step(&StepCtx {
                        idx,
                        actor: actor_of(other),
                        op: &op,
                        chunk: None,
                        pre: &cur,
                        post: &post,
                        screen: &g,
                    });
                    stats.state_hashes.push(post.hash());
                    cur = post;
                } else {
                    r = obs.step(&StepCtx {
                        idx,
                        actor: actor_of(other),
                        op: &op,
                        chunk: None,
                        pre: &cur,
                        post: &cur,
                        screen: &g,
                    });
                }
                drop(g);
                r?;
            }
        }
        idx += 1;
        stats.ops += 1;
        sig ^= actor_of(step) as u64 + 1;
        sig = splitmix(&mut sig);
    }
    {
        let g = screen
            .lock()
            .map_err(|_| Violation::new(&trace.prop, "C01/poisoned", "listener mutex poisoned", idx))?;
        cur = Snapshot::take(&g);
        obs.end(&g, &cur)?;
    }
    stats.schedule_sig = sig;
    stats.final_hash = cur.hash();
    drop(fe);
    Ok((stats, screen))
}

pub fn run(trace: &Trace, obs: &mut dyn Observer) -> Result<RunStats, Violation> {
    match trace.wiring {
        Wiring::Q => run_q(trace, obs).map(|x| x.0),
        Wiring::P => run_p(trace, obs).map(|x| x.0),
    }
}

/// Observer that checks nothing (used for twin runs that only need the final state).
pub struct NoObs;
impl Observer for NoObs {
    fn needs_snap(&self, _actor: Actor, _op: &Op, _screen: &Screen) -> bool {
        false
    }
    fn step(&mut self, _ctx: &StepCtx) -> Result<(), Violation> {
        Ok(())
    }
}

// ---------------------------------------------------------------------------------------
// panic capture: a silent hook that records message and location for the current thread

use std::cell::RefCell;
thread_local! {
    static LAST_PANIC: RefCell<Option<String>> = const { RefCell::new(None) };
    static CURRENT_OP: RefCell<String> = const { RefCell::new(String::new()) };
}

pub fn set_current_op(name: &str) {
    CURRENT_OP.with(|c| {
        let mut c = c.borrow_mut();
        c.clear();
        c.push_str(name);
    });
}

pub fn current_op() -> String {
    CURRENT_OP.with(|c| c.borrow().clone())
}

pub fn install_panic_hook() {
    std::panic::set_hook(Box::new(|info| {
        let loc = info
            .location()
            .map(|l| format!("{}:{}", l.file(), l.line()))
            .unwrap_or_else(|| "?".to_owned());
        let msg = if let Some(s) = info.payload().downcast_ref::<&str>() {
            (*s).to_owned()
        } else if let Some(s) = info.payload().downcast_ref::<String>() {
            s.clone()
        } else {
            "<non-string panic>".to_owned()
        };
        LAST_PANIC.with(|p| {
            // keep the first panic of a run (later ones are consequences, e.g. poisoned mutex)
            let mut p = p.borrow_mut();
            if p.is_none() {
                *p = Some(format!("{} @ {}", msg, loc));
            }
        });
    }));
}

pub fn take_panic() -> Option<String> {
    LAST_PANIC.with(|p| p.borrow_mut().take())
}

/// Run `f`, turning a panic anywhere inside (harness or memterm) into Err(description).
pub fn guarded<T>(f: impl FnOnce() -> T) -> Result<T, String> {
    let _ = take_panic();
    match std::panic::catch_unwind(std::panic::AssertUnwindSafe(f)) {
        Ok(v) => Ok(v),
        Err(_) => Err(take_panic().unwrap_or_else(|| "panic (no info)".to_owned())),
    }
}
