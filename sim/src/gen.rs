//! Workloads (Program), the Line with its faults, and the scheduler that expands one seed
//! into a concrete Trace. Pure function of the seed and harness code: never consults memterm.

use crate::ops::Op;
use crate::prng::Rng;
use crate::trace::{Front, Step, Trace, Wiring};

static CAPTURED: [&[u8]; 7] = [
    include_bytes!("/repo/assets/captured/cat-gpl3.input"),
    include_bytes!("/repo/assets/captured/find-etc.input"),
    include_bytes!("/repo/assets/captured/htop.input"),
    include_bytes!("/repo/assets/captured/ls.input"),
    include_bytes!("/repo/assets/captured/mc.input"),
    include_bytes!("/repo/assets/captured/top.input"),
    include_bytes!("/repo/assets/captured/vi.input"),
];

use std::sync::atomic::{AtomicBool, Ordering};
static DEEP: AtomicBool = AtomicBool::new(false);

/// thorough tier: longer sessions, more foreign steps, larger enumeration bounds
pub fn set_deep(on: bool) {
    DEEP.store(on, Ordering::Relaxed);
}
pub fn deep() -> bool {
    DEEP.load(Ordering::Relaxed)
}
/// an enumeration bound, doubled in the thorough tier
pub fn bound(quick: usize) -> usize {
    if deep() {
        quick * 2
    } else {
        quick
    }
}

#[derive(Clone, Copy, Debug, PartialEq, Eq)]
pub enum Focus {
    Any,
    Text,
    Movement,
    Scroll,
    Erase,
    Sgr,
    Modes,
    InsDel,
    SaveRestore,
    Ris,
    Resize,
    Tabs,
    Osc,
    Charset,
    Grammar,
    Utf8,
}

#[derive(Clone, Copy, Debug, PartialEq, Eq)]
pub enum Kind {
    Grammar,
    Text,
    Editor,
    Soup,
    Captured,
    CharsetSweep,
}

#[derive(Clone, Debug)]
pub struct Profile {
    pub focus: Focus,
    /// weights over [Grammar, Text, Editor, Soup, Captured, CharsetSweep]
    pub kinds: [u32; 6],
    /// probability (percent) that corruption faults are enabled for a run
    pub corrupt_pct: u32,
    /// percent of runs with Renderer / Resizer / Operator present
    pub renderer_pct: u32,
    pub resizer_pct: u32,
    pub operator_pct: u32,
    /// percent of runs in 8-bit mode
    pub eightbit_pct: u32,
    /// percent of runs that switch decoder mode between chunks
    pub switch_pct: u32,
    /// percent of runs using the character front end (Parser) instead of ByteParser
    pub chars_pct: u32,
    /// percent of runs under wiring P
    pub wiring_p_pct: u32,
    pub max_len: u32,
    /// foreign steps allowed while events are queued
    pub midchunk: bool,
    /// percent of runs on small geometries
    pub small_geo_pct: u32,
    /// make SM/RM sequences and Operator mode calls pick DECCOLM often (C16 round trip)
    pub deccolm_bias: bool,
    /// per-mille of runs that are "big": one construct blown up far beyond the usual sizes (an OSC
    /// payload of thousands of characters, dozens of CSI parameters, tens of kilobytes of text or
    /// byte soup in one read) - buffers and fast paths have thresholds that short inputs never cross
    pub big_permille: u32,
}

impl Profile {
    pub fn base(focus: Focus) -> Profile {
        Profile {
            focus,
            kinds: [40, 15, 25, 8, 6, 6],
            corrupt_pct: 30,
            renderer_pct: 50,
            resizer_pct: 40,
            operator_pct: 50,
            eightbit_pct: 25,
            switch_pct: 5,
            chars_pct: 10,
            wiring_p_pct: 0,
            max_len: 400,
            midchunk: true,
            small_geo_pct: 70,
            deccolm_bias: false,
            big_permille: 0,
        }
    }
}

#[derive(Clone, Copy, Debug)]
pub struct Geo {
    pub cols: u32,
    pub lines: u32,
}

/// Share (percent of the non-small runs) that start on a screen larger than 140x40.
/// VERIF_BIG_GEO_PCT overrides it (used to soak the oracles on big screens).
pub fn big_geo_pct() -> u64 {
    static V: std::sync::OnceLock<u64> = std::sync::OnceLock::new();
    *V.get_or_init(|| std::env::var("VERIF_BIG_GEO_PCT").ok().and_then(|s| s.parse().ok()).unwrap_or(3).min(100))
}

/// Counts around word-size boundaries (shifts by a whole number of 64-bit words).
const WORDISH: &[u32] = &[31, 32, 33, 63, 64, 65, 127, 128, 129, 191, 192, 193, 255, 256];

pub fn geometry(r: &mut Rng, small_pct: u32) -> Geo {
    if r.chance(small_pct as u64, 100) {
        let cols = *r.pick(&[1u32, 1, 2, 2, 3, 3, 4, 5, 5, 6, 7, 8, 9, 10, 12, 16, 17]);
        let lines = *r.pick(&[1u32, 1, 2, 2, 3, 3, 4, 4, 5, 5, 6, 7, 8]);
        Geo { cols, lines }
    } else if r.chance(big_geo_pct(), 100) {
        // beyond the ordinary 140x40 envelope: word-size boundaries of per-row / per-screen
        // bitsets and small fixed-capacity tables (64, 128, 192, 256 columns; 64, 128 lines)
        let cols = *r.pick(&[129u32, 132, 160, 191, 192, 193, 200, 255, 256, 257, 300]);
        let lines = *r.pick(&[24u32, 41, 50, 63, 64, 65, 66, 100, 128, 129]);
        Geo { cols, lines }
    } else {
        match r.below(10) {
            0..=3 => Geo { cols: 80, lines: 24 },
            4 => Geo { cols: 132, lines: 24 },
            5 => Geo { cols: 140, lines: 40 },
            6 => Geo { cols: r.range(1, 140) as u32, lines: 1 },
            7 => Geo { cols: 1, lines: r.range(1, 40) as u32 },
            _ => Geo { cols: r.range(1, 140) as u32, lines: r.range(1, 40) as u32 },
        }
    }
}

// ------------------------------------------------------------------------------- numbers

/// A CSI parameter as written by a program: empty, 0, 1, 2, size-related, 9999, overlong.
pub fn num(r: &mut Rng, g: Geo) -> String {
    match r.below(100) {
        0..=13 => String::new(),
        14..=22 => "0".into(),
        23..=37 => "1".into(),
        38..=47 => "2".into(),
        48..=72 => {
            let base = *r.pick(&[g.lines, g.cols, g.lines, g.cols, 132, 80]);
            let d = r.below(5) as i64 - 2;
            format!("{}", (base as i64 + d).max(0))
        }
        73..=84 => format!("{}", r.range(3, 12)),
        85..=89 => "9999".into(),
        90..=91 => format!("{}", r.range(10000, 70000)),
        92..=93 => "99999999999999999999".into(),
        94 => "00000000000000000000000007".into(),
        95..=96 => format!("{}", r.pick(WORDISH)),
        _ => format!("{}", r.range(0, 300)),
    }
}

/// Optional numeric argument for a direct API call (absent or 0..=9999).
pub fn api_num(r: &mut Rng, g: Geo) -> Option<u32> {
    match r.below(100) {
        0..=14 => None,
        15..=24 => Some(0),
        25..=39 => Some(1),
        40..=49 => Some(2),
        50..=74 => {
            let base = *r.pick(&[g.lines, g.cols, g.lines, g.cols, 132]);
            let d = r.below(5) as i64 - 2;
            Some((base as i64 + d).clamp(0, 9999) as u32)
        }
        75..=86 => Some(r.range(3, 12) as u32),
        87..=92 => Some(9999),
        93..=94 => Some(*r.pick(WORDISH)),
        _ => Some(r.range(0, 9999) as u32),
    }
}

// ---------------------------------------------------------------------------------- text

const NARROW: &str = "abcdefghijklmnopqrstuvwxyzABCDEFGHIJKLMNOPQRSTUVWXYZ0123456789";
const PUNCT: &str = " !\"#$%&'()*+,-./:;<=>?@[\\]^_`{|}~";
const LATIN1: &[char] = &['\u{a0}', '\u{a3}', '\u{ad}', '\u{b1}', '\u{e9}', '\u{f1}', '\u{ff}', '\u{d7}'];
const WIDE: &[char] = &['世', '界', '한', 'あ', 'ｶ', '😀', '\u{3000}', '中'];
const COMBINING: &[char] = &['\u{301}', '\u{308}', '\u{20dd}', '\u{0327}', '\u{1ab0}'];
const ZEROW: &[char] = &['\u{200b}', '\u{200d}', '\u{feff}', '\u{ad}', '\u{2060}'];
const ABOVE: &[char] = &['Ω', 'ж', '→', '─', '│', '€', 'ﬁ', '\u{2588}'];
const CTRL_TEXT: &[char] = &['\u{0}', '\u{1}', '\u{7f}', '\u{1c}', '\u{1f}', '\u{80}', '\u{84}', '\u{9f}', '\u{90}'];

pub fn push_char(out: &mut Vec<u8>, c: char, utf8: bool) {
    if utf8 || (c as u32) > 255 {
        let mut b = [0u8; 4];
        out.extend_from_slice(c.encode_utf8(&mut b).as_bytes());
    } else {
        out.push(c as u32 as u8);
    }
}

pub fn push_str(out: &mut Vec<u8>, s: &str, utf8: bool) {
    for c in s.chars() {
        push_char(out, c, utf8);
    }
}

pub fn text_char(r: &mut Rng, focus: Focus) -> char {
    let w: [u32; 8] = match focus {
        Focus::Text => [40, 8, 6, 14, 10, 6, 8, 3],
        Focus::Charset => [50, 25, 20, 1, 1, 1, 2, 2],
        Focus::Utf8 => [20, 5, 15, 20, 10, 10, 18, 2],
        _ => [70, 8, 4, 6, 4, 2, 4, 1],
    };
    match r.weighted(&w) {
        0 => *r.pick(&NARROW.chars().collect::<Vec<_>>()),
        1 => *r.pick(&PUNCT.chars().collect::<Vec<_>>()),
        2 => *r.pick(LATIN1),
        3 => *r.pick(WIDE),
        4 => *r.pick(COMBINING),
        5 => *r.pick(ZEROW),
        6 => *r.pick(ABOVE),
        _ => *r.pick(CTRL_TEXT),
    }
}

fn text_run(r: &mut Rng, out: &mut Vec<u8>, utf8: bool, focus: Focus, g: Geo) {
    let n = match r.below(10) {
        0..=4 => r.range(1, 4),
        5..=7 => r.range(1, (g.cols as u64 + 2).min(24)),
        _ => r.range(1, (2 * g.cols as u64 + 3).min(60)),
    };
    for _ in 0..n {
        let c = text_char(r, focus);
        push_char(out, c, utf8);
    }
}

// ------------------------------------------------------------------------------ sequences

fn csi_intro(r: &mut Rng, out: &mut Vec<u8>, utf8: bool) {
    if r.chance(1, 8) {
        push_char(out, '\u{9b}', utf8);
    } else {
        out.extend_from_slice(b"\x1b[");
    }
}

fn osc_intro(r: &mut Rng, out: &mut Vec<u8>, utf8: bool) {
    if r.chance(1, 6) {
        push_char(out, '\u{9d}', utf8);
    } else {
        out.extend_from_slice(b"\x1b]");
    }
}

const MOVE_FINALS: &[u8] = b"ABCDEFGHfadeGdHf";
const SCROLL_FINALS: &[u8] = b"LMrLMr";
const ERASE_FINALS: &[u8] = b"JKXJKX";
const INSDEL_FINALS: &[u8] = b"@P@PX";
const ALL_FINALS: &[u8] = b"@ABCDEFGHJKLMPXacdefghlmr";
const UNSUPPORTED_FINALS: &[u8] = b"STZ`bijknopqstuvwxyz{|}~INOQRUVWY";
const MODE_NUMS: &[u32] = &[3, 4, 5, 6, 7, 20, 25, 96, 128, 160, 192, 224, 640, 800, 1, 2, 12, 1000, 1049, 2004];

fn csi_params(r: &mut Rng, out: &mut Vec<u8>, g: Geo, count: u64) {
    for i in 0..count {
        if i > 0 {
            out.push(b';');
        }
        out.extend_from_slice(num(r, g).as_bytes());
        // noise inside the parameter area
        match r.below(60) {
            0 => out.push(*r.pick(&[7u8, 8, 9, 10, 11, 12, 13])),
            1 => out.push(b' '),
            2 => out.push(b'>'),
            _ => {}
        }
    }
}

fn csi_generic(r: &mut Rng, out: &mut Vec<u8>, utf8: bool, g: Geo, finals: &[u8]) {
    csi_intro(r, out, utf8);
    if r.chance(1, 20) {
        out.push(b'?');
    }
    let count = *r.pick(&[0u64, 1, 1, 1, 1, 2, 2, 2, 3, 5]);
    csi_params(r, out, g, count);
    match r.below(50) {
        0 => {
            out.push(*r.pick(&[0x18u8, 0x1a]));
            return;
        }
        1 => {
            out.push(b'$');
            out.push(*r.pick(b"pxz|"));
            return;
        }
        _ => {}
    }
    out.push(*r.pick(finals));
}

fn sgr_code(r: &mut Rng) -> u32 {
    match r.below(10) {
        0..=5 => *r.pick(&[
            0u32, 1, 3, 4, 5, 7, 9, 22, 23, 24, 25, 27, 29, 30, 31, 32, 33, 34, 35, 36, 37, 39, 40, 41, 42, 43,
            44, 45, 46, 47, 49, 90, 91, 92, 93, 94, 95, 96, 97, 100, 101, 102, 103, 104, 105, 106, 107,
        ]),
        6 => r.range(0, 110) as u32,
        7 => *r.pick(&[2u32, 6, 8, 10, 21, 26, 28, 50, 51, 58, 59, 98, 99, 108, 255, 256]),
        _ => r.range(0, 9999) as u32,
    }
}

pub fn sgr_list(r: &mut Rng) -> Vec<u32> {
    let mut v = Vec::new();
    let n = *r.pick(&[0u64, 1, 1, 1, 2, 2, 3, 4, 6, 9]);
    for _ in 0..n {
        match r.below(10) {
            0..=1 => {
                // 38/48;5;n
                v.push(*r.pick(&[38u32, 48]));
                match r.below(8) {
                    0 => {}
                    1 => v.push(5),
                    _ => {
                        v.push(5);
                        v.push(match r.below(4) {
                            0 => r.range(0, 15) as u32,
                            1 => r.range(16, 255) as u32,
                            2 => r.range(250, 300) as u32,
                            _ => r.range(0, 9999) as u32,
                        });
                    }
                }
            }
            2 => {
                // 38/48;2;r;g;b with truncated tails
                v.push(*r.pick(&[38u32, 48]));
                v.push(2);
                let k = *r.pick(&[0u64, 1, 2, 3, 3, 3, 3, 3]);
                for _ in 0..k {
                    v.push(match r.below(6) {
                        0 => r.range(256, 300) as u32,
                        1 => 255,
                        2 => 0,
                        _ => r.range(0, 255) as u32,
                    });
                }
            }
            3 => {
                v.push(*r.pick(&[38u32, 48]));
                v.push(*r.pick(&[0u32, 1, 3, 4, 6, 38, 48, 9999]));
            }
            _ => v.push(sgr_code(r)),
        }
    }
    v
}

fn sgr_seq(r: &mut Rng, out: &mut Vec<u8>, utf8: bool) {
    csi_intro(r, out, utf8);
    let v = sgr_list(r);
    let mut first = true;
    for x in v {
        if !first {
            out.push(b';');
        }
        first = false;
        if x == 0 && r.chance(1, 2) {
            // empty parameter = 0
        } else {
            out.extend_from_slice(format!("{}", x).as_bytes());
        }
    }
    out.push(b'm');
}

fn mode_seq(r: &mut Rng, out: &mut Vec<u8>, utf8: bool, focus: Focus) {
    csi_intro(r, out, utf8);
    if focus == Focus::Resize && r.chance(1, 2) {
        // the DECCOLM 132-column round trip
        out.extend_from_slice(if r.chance(1, 2) { b"?3h" } else { b"?3l" });
        return;
    }
    if r.chance(3, 5) {
        out.push(b'?');
    }
    let n = *r.pick(&[1u64, 1, 1, 1, 2, 3]);
    for i in 0..n {
        if i > 0 {
            out.push(b';');
        }
        let m = if r.chance(4, 5) { *r.pick(MODE_NUMS) } else { r.range(0, 9999) as u32 };
        out.extend_from_slice(format!("{}", m).as_bytes());
    }
    out.push(if r.chance(1, 2) { b'h' } else { b'l' });
}

fn osc_seq(r: &mut Rng, out: &mut Vec<u8>, utf8: bool, risky: bool) {
    osc_intro(r, out, utf8);
    let code = if risky && r.chance(1, 12) {
        *r.pick(b"PRpAl;")
    } else {
        *r.pick(b"0120123456789")
    };
    out.push(code);
    if risky && r.chance(1, 25) {
        // OSC ended before any ';'
    } else {
        if risky && r.chance(1, 20) {
            out.push(*r.pick(b"0123456789"));
        }
        out.push(b';');
        let n = *r.pick(&[0u64, 0, 1, 2, 3, 5, 8, 13, 30]);
        for _ in 0..n {
            match r.below(24) {
                0 => out.push(b';'),
                1 => out.push(b'\\'),
                2 => out.push(b']'),
                3 => out.push(b' '),
                4 => push_char(out, *r.pick(&['é', 'Ω', '世', '\u{301}', '➜', '\u{a0}']), utf8),
                5 => {
                    out.push(0x1b);
                    out.push(*r.pick(b"[]a0(c7\x1b"));
                }
                6 => out.push(*r.pick(&[1u8, 8, 9, 10, 13, 14, 15, 0x7f, 0])),
                7 if risky => out.push(*r.pick(&[0x18u8, 0x1a])),
                _ => out.push(*r.pick(NARROW.as_bytes())),
            }
        }
    }
    match r.below(10) {
        0..=4 => out.push(7),
        5..=7 => out.extend_from_slice(b"\x1b\\"),
        8 => push_char(out, '\u{9c}', utf8),
        _ => {
            if risky {
                // unterminated: whatever follows is swallowed until a terminator shows up
            } else {
                out.push(7)
            }
        }
    }
}

fn esc_seq(r: &mut Rng, out: &mut Vec<u8>, risky: bool) {
    out.push(0x1b);
    match r.below(20) {
        0..=9 => out.push(*r.pick(b"cDEMH78DEM78")),
        10 => {
            out.push(b'#');
            out.push(*r.pick(b"8883456"));
        }
        11 => {
            out.push(b'%');
            out.push(*r.pick(b"G@8A"));
        }
        12..=14 => {
            out.push(*r.pick(b"()"));
            out.push(*r.pick(b"B0UVB0UVAK12"));
        }
        15 => out.push(*r.pick(b"=>ZNOcn|}~6")),
        16 if risky => out.push(*r.pick(&[0x1bu8, 0x07, 0x0a, 0x18, 0x7f, b' ', b'*', b'+'])),
        _ => out.push(*r.pick(b"DEM78H")),
    }
}

fn c0(r: &mut Rng, out: &mut Vec<u8>, focus: Focus) {
    let set: &[u8] = match focus {
        Focus::Scroll => b"\n\n\n\r\x0b\x0c\n\r",
        Focus::Tabs => b"\t\t\t\t\r\x08\n",
        Focus::Charset => b"\x0e\x0f\x0e\x0f\r\n",
        Focus::Movement => b"\x08\x08\r\r\n\t",
        _ => b"\x07\x08\t\n\x0b\x0c\r\x0e\x0f\n\r\x08",
    };
    out.push(*r.pick(set));
}

/// one grammar token
fn token(r: &mut Rng, out: &mut Vec<u8>, utf8: bool, g: Geo, focus: Focus, risky: bool) {
    // a program that paints the same thing at the same place again after something else touched it
    if matches!(focus, Focus::Any | Focus::Text | Focus::Erase | Focus::InsDel | Focus::Resize | Focus::Sgr) && r.chance(1, 22) {
        redraw_pattern(r, out, utf8, g);
        return;
    }
    // weights: text, c0, esc, csi-any, csi-move, csi-scroll, csi-erase, csi-insdel, sgr, mode, osc, tabs, charset, unsupported, cup
    let w: [u32; 15] = match focus {
        Focus::Any | Focus::Grammar => [22, 10, 8, 10, 8, 5, 5, 5, 6, 5, 4, 3, 3, 3, 3],
        Focus::Text => [45, 10, 3, 2, 6, 2, 2, 2, 6, 8, 1, 1, 4, 1, 7],
        Focus::Movement => [12, 10, 3, 3, 40, 4, 1, 1, 1, 6, 1, 2, 0, 1, 15],
        Focus::Scroll => [14, 18, 12, 2, 8, 26, 1, 1, 2, 4, 0, 0, 0, 1, 11],
        Focus::Erase => [22, 5, 2, 2, 10, 3, 32, 2, 10, 3, 0, 0, 0, 1, 8],
        Focus::Sgr => [20, 4, 2, 2, 3, 1, 4, 1, 50, 5, 0, 0, 0, 1, 7],
        Focus::Modes => [18, 8, 4, 3, 8, 5, 3, 3, 4, 34, 0, 1, 1, 1, 7],
        Focus::InsDel => [26, 5, 2, 2, 12, 2, 6, 30, 4, 5, 0, 0, 0, 1, 5],
        Focus::SaveRestore => [14, 6, 28, 3, 12, 5, 2, 2, 8, 8, 0, 0, 6, 1, 5],
        Focus::Ris => [20, 8, 12, 6, 8, 5, 4, 4, 6, 8, 4, 4, 4, 2, 5],
        Focus::Resize => [28, 10, 6, 4, 8, 8, 6, 8, 6, 8, 0, 1, 0, 1, 6],
        Focus::Tabs => [14, 22, 10, 2, 14, 1, 1, 1, 1, 6, 0, 22, 0, 1, 5],
        Focus::Osc => [18, 6, 4, 4, 4, 1, 2, 1, 2, 2, 50, 0, 0, 2, 4],
        Focus::Charset => [36, 18, 4, 2, 4, 1, 1, 1, 2, 2, 0, 0, 26, 1, 2],
        Focus::Utf8 => [70, 8, 3, 3, 3, 1, 1, 1, 2, 2, 3, 0, 1, 1, 1],
    };
    match r.weighted(&w) {
        0 => text_run(r, out, utf8, focus, g),
        1 => c0(r, out, focus),
        2 => esc_seq(r, out, risky),
        3 => csi_generic(r, out, utf8, g, ALL_FINALS),
        4 => csi_generic(r, out, utf8, g, MOVE_FINALS),
        5 => {
            if r.chance(1, 2) {
                csi_generic(r, out, utf8, g, SCROLL_FINALS)
            } else {
                esc_seq_from(r, out, b"DEMDEMDM")
            }
        }
        6 => csi_generic(r, out, utf8, g, ERASE_FINALS),
        7 => csi_generic(r, out, utf8, g, INSDEL_FINALS),
        8 => sgr_seq(r, out, utf8),
        9 => mode_seq(r, out, utf8, focus),
        10 => osc_seq(r, out, utf8, risky),
        11 => match r.below(4) {
            0 => out.extend_from_slice(b"\x1bH"),
            1 => {
                csi_intro(r, out, utf8);
                out.extend_from_slice(num(r, g).as_bytes());
                out.push(b'g');
            }
            2 => {
                csi_intro(r, out, utf8);
                out.extend_from_slice(*r.pick(&[&b"3g"[..], b"0g", b"g", b"2g"]));
            }
            _ => out.push(9),
        },
        12 => {
            out.push(0x1b);
            out.push(*r.pick(b"()"));
            out.push(*r.pick(b"B0UVB0UVAK"));
        }
        13 => csi_generic(r, out, utf8, g, UNSUPPORTED_FINALS),
        _ => {
            // CUP / HVP to an in-range or slightly out-of-range position
            csi_intro(r, out, utf8);
            let row = r.range(0, g.lines as u64 + 1);
            let col = r.range(0, g.cols as u64 + 1);
            out.extend_from_slice(format!("{};{}", row, col).as_bytes());
            out.push(*r.pick(b"Hf"));
        }
    }
}

/// CUP(r,c) T ; CUP(r,c+k) U ; CUP(r,c) T  - the second T repaints what U disturbed
fn redraw_pattern(r: &mut Rng, out: &mut Vec<u8>, utf8: bool, g: Geo) {
    let row = r.range(1, g.lines as u64);
    let col = r.range(1, g.cols as u64);
    let mut t = Vec::new();
    let n = r.range(1, 3);
    for _ in 0..n {
        let c = if r.chance(1, 2) { *r.pick(WIDE) } else { *r.pick(&NARROW.chars().collect::<Vec<_>>()) };
        push_char(&mut t, c, utf8);
    }
    let k = r.below(4);
    let mut u = Vec::new();
    match r.below(5) {
        0 => push_char(&mut u, *r.pick(WIDE), utf8),
        1 => u.extend_from_slice(b"\x1b[K"),
        2 => u.extend_from_slice(b"\x1b[P"),
        _ => push_char(&mut u, *r.pick(&NARROW.chars().collect::<Vec<_>>()), utf8),
    }
    out.extend_from_slice(format!("\x1b[{};{}H", row, col).as_bytes());
    out.extend_from_slice(&t);
    out.extend_from_slice(format!("\x1b[{};{}H", row, col + k).as_bytes());
    out.extend_from_slice(&u);
    out.extend_from_slice(format!("\x1b[{};{}H", row, col).as_bytes());
    out.extend_from_slice(&t);
}

fn esc_seq_from(r: &mut Rng, out: &mut Vec<u8>, finals: &[u8]) {
    out.push(0x1b);
    out.push(*r.pick(finals));
}

/// Fill (part of) the screen with distinct markers and per-row renditions.
fn marker_fill(r: &mut Rng, out: &mut Vec<u8>, g: Geo, utf8: bool) {
    let alphabet = NARROW.as_bytes();
    let rows: Vec<u32> = (0..g.lines.min(12)).filter(|_| r.chance(4, 5)).collect();
    let mut k = r.below(62) as usize;
    for y in rows {
        out.extend_from_slice(format!("\x1b[{};1H", y + 1).as_bytes());
        match r.below(4) {
            0 => {}
            1 => out.extend_from_slice(format!("\x1b[3{}m", 1 + y % 7).as_bytes()),
            2 => out.extend_from_slice(format!("\x1b[0;4{};1m", 1 + y % 7).as_bytes()),
            _ => out.extend_from_slice(format!("\x1b[38;5;{}m", 16 + (y * 7) % 200).as_bytes()),
        }
        let width = if r.chance(3, 4) { g.cols.min(40) } else { r.range(0, g.cols.min(40) as u64) as u32 };
        let mut x = 0;
        while x < width {
            if r.chance(1, 14) && x + 1 < width {
                push_char(out, *r.pick(WIDE), utf8);
                x += 2;
            } else {
                out.push(alphabet[k % alphabet.len()]);
                k += 1;
                x += 1;
            }
        }
    }
    if r.chance(1, 3) {
        sparse_fill(r, out, g, k);
    }
    if r.chance(1, 2) {
        out.extend_from_slice(b"\x1b[m");
    }
    let row = r.range(1, g.lines as u64);
    let col = r.range(1, g.cols as u64 + 1);
    out.extend_from_slice(format!("\x1b[{};{}H", row, col).as_bytes());
}

/// Isolated markers anywhere on the screen (also below row 12 and right of column 40, which
/// marker_fill leaves alone): rows that store a few far-apart cells and nothing in between,
/// some of them a whole number of 64-column words apart.
fn sparse_fill(r: &mut Rng, out: &mut Vec<u8>, g: Geo, mut k: usize) {
    let alphabet = NARROW.as_bytes();
    if r.chance(1, 4) {
        // a vertical stripe: every row of the screen stores something
        let col = r.range(1, g.cols as u64);
        for row in 1..=g.lines {
            out.extend_from_slice(format!("\x1b[{};{}H", row, col).as_bytes());
            out.push(alphabet[k % alphabet.len()]);
            k += 1;
        }
        return;
    }
    let n = r.range(2, 9);
    let mut row = r.range(1, g.lines as u64);
    let mut col = r.range(1, g.cols as u64);
    for _ in 0..n {
        out.extend_from_slice(format!("\x1b[{};{}H", row, col).as_bytes());
        out.push(alphabet[k % alphabet.len()]);
        k += 1;
        match r.below(4) {
            0 => {
                row = r.range(1, g.lines as u64);
                col = r.range(1, g.cols as u64);
            }
            1 => col = r.range(1, g.cols as u64),
            _ => {
                // same row, a word-ish distance away (wrapping around the width)
                let d = *r.pick(&[32u64, 64, 64, 128, 128, 192]);
                col = (col - 1 + d) % g.cols as u64 + 1;
            }
        }
    }
}

/// modes a program sets up before it starts typing: insert mode, autowrap off, newline mode,
/// reverse video - independently, so that combinations (IRM with DECAWM off) occur
fn mode_prelude(r: &mut Rng, out: &mut Vec<u8>) {
    if r.chance(1, 5) {
        out.extend_from_slice(b"\x1b[4h");
    }
    if r.chance(1, 5) {
        out.extend_from_slice(b"\x1b[?7l");
    }
    if r.chance(1, 10) {
        out.extend_from_slice(b"\x1b[20h");
    }
    if r.chance(1, 12) {
        out.extend_from_slice(b"\x1b[?5h");
        // reverse video with a plain, non-reverse pen: the pen equals CharOpts::default()
        // while the blank of the screen does not
        if r.chance(1, 2) {
            out.extend_from_slice(if r.chance(1, 2) { b"\x1b[27m" as &[u8] } else { b"\x1b[0;27m" });
        }
    }
}

fn editor(r: &mut Rng, out: &mut Vec<u8>, g: Geo, utf8: bool, focus: Focus, len: usize) {
    marker_fill(r, out, g, utf8);
    if r.chance(1, 2) {
        // a scrolling region
        let t = r.range(0, g.lines as u64 + 1);
        let b = r.range(0, g.lines as u64 + 1);
        out.extend_from_slice(format!("\x1b[{};{}r", t, b).as_bytes());
        if r.chance(1, 3) {
            out.extend_from_slice(b"\x1b[?6h");
        }
        let row = r.range(1, g.lines as u64);
        let col = r.range(1, g.cols as u64 + 1);
        out.extend_from_slice(format!("\x1b[{};{}H", row, col).as_bytes());
    }
    mode_prelude(r, out);
    let start = out.len();
    let target = start + len;
    tokens_with_repeats(r, out, utf8, g, focus, false, target);
}

/// Tokens until `out` reaches `target` bytes; now and then a run of earlier tokens is emitted
/// again verbatim (full-screen programs redraw the same content at the same place all the time).
fn tokens_with_repeats(r: &mut Rng, out: &mut Vec<u8>, utf8: bool, g: Geo, focus: Focus, risky: bool, target: usize) {
    let mut hist: Vec<Vec<u8>> = Vec::new();
    while out.len() < target {
        if hist.len() >= 2 && r.chance(1, 9) {
            let start = r.below(hist.len() as u64) as usize;
            let n = r.range(1, 4) as usize;
            for t in hist.iter().skip(start).take(n) {
                out.extend_from_slice(t);
            }
            continue;
        }
        let before = out.len();
        token(r, out, utf8, g, focus, risky);
        hist.push(out[before..].to_vec());
        if hist.len() > 12 {
            hist.remove(0);
        }
    }
}

fn soup(r: &mut Rng, out: &mut Vec<u8>, len: usize) {
    while out.len() < len {
        match r.below(12) {
            0 => out.push(r.below(256) as u8),
            1 => out.push(r.range(0x80, 0xbf) as u8), // stray continuation
            2 => {
                // truncated lead
                let lead = *r.pick(&[0xc3u8, 0xe2, 0xe4, 0xf0, 0xf4, 0xef]);
                out.push(lead);
                if r.chance(1, 2) {
                    out.push(r.range(0x80, 0xbf) as u8);
                }
            }
            3 => out.extend_from_slice(*r.pick(&[
                &[0xc0u8, 0x80][..],            // overlong NUL
                &[0xc1, 0xbf],                  // overlong
                &[0xe0, 0x80, 0x80],            // overlong 3
                &[0xe0, 0x9f, 0xbf],            // overlong 3
                &[0xf0, 0x80, 0x80, 0x80],      // overlong 4
                &[0xf0, 0x8f, 0xbf, 0xbf],      // overlong 4
                &[0xed, 0xa0, 0x80],            // surrogate
                &[0xed, 0xbf, 0xbf],            // surrogate
                &[0xf4, 0x90, 0x80, 0x80],      // > U+10FFFF
                &[0xf5, 0x80, 0x80, 0x80],
                &[0xf8, 0x88, 0x80, 0x80, 0x80],
                &[0xfe],
                &[0xff],
                &[0xef, 0xbb, 0xbf],            // BOM
                &[0xef, 0xbb],                  // half BOM
                &[0xe2, 0x9e, 0x9c],            // contains 0x9c
                &[0xc2, 0x9b],                  // C1 CSI
                &[0xc2, 0x9d],                  // C1 OSC
                &[0xc2, 0x9c],                  // C1 ST
                &[0xf0, 0x9f, 0x98, 0x80],      // emoji
                &[0xf4, 0x8f, 0xbf, 0xbf],      // U+10FFFF
                &[0xe4, 0xb8, 0x96],            // wide
                &[0xcc, 0x81],                  // combining
            ])),
            4 => out.push(0x1b),
            5 => out.extend_from_slice(*r.pick(&[&b"\x1b["[..], b"\x1b]", b"\x9b", b"\x9d", b"\x1b(", b"\x1b#", b"\x1b%"])),
            6 => out.push(*r.pick(b"0123456789;?$ >")),
            7 => out.push(*r.pick(ALL_FINALS)),
            8 => out.push(r.below(32) as u8),
            _ => out.push(*r.pick(NARROW.as_bytes())),
        }
    }
}

fn charset_sweep(r: &mut Rng, out: &mut Vec<u8>, g: Geo) {
    // designate, shift, then print a byte range; wrap with CR so text stays on screen
    let n = r.range(1, 4);
    for _ in 0..n {
        out.push(0x1b);
        out.push(*r.pick(b"()"));
        out.push(*r.pick(b"B0UVB0UVAK"));
        out.push(*r.pick(&[0x0eu8, 0x0f, 0x0e, 0x0f, b'\r']));
        let start = r.below(256) as u32;
        let len = r.range(1, (g.cols as u64).clamp(1, 32));
        for i in 0..len {
            let b = ((start + i as u32) % 256) as u8;
            // keep the sweep printable: controls would leave the ground state
            if matches!(b, 0x07..=0x0f | 0x1b | 0x18 | 0x1a | 0x9b | 0x9d) {
                continue;
            }
            out.push(b);
        }
        out.extend_from_slice(b"\r");
        if r.chance(1, 3) {
            out.push(b'\n');
        }
    }
}

pub struct Session {
    pub bytes: Vec<u8>,
    pub kind: Kind,
}

/// one construct blown up far beyond the usual sizes
pub fn big_session(r: &mut Rng, utf8: bool) -> Vec<u8> {
    let mut out = Vec::new();
    match r.below(6) {
        0 => {
            // an OSC string of thousands of (partly multi-byte) characters
            out.extend_from_slice(b"\x1b]");
            out.push(*r.pick(b"012"));
            out.push(b';');
            let n = *r.pick(&[1000u64, 4090, 4096, 5000, 8200, 20000]) + r.below(9);
            let wide = r.chance(1, 2);
            for i in 0..n {
                if wide || i % 7 == 3 {
                    push_char(&mut out, *r.pick(&['é', 'Ω', '世', 'ÿ']), utf8);
                } else {
                    out.push(*r.pick(NARROW.as_bytes()));
                }
            }
            out.extend_from_slice(*r.pick(&[&b"\x07"[..], b"\x1b\\"]));
            out.extend_from_slice(b"ok");
        }
        1 => {
            // dozens to hundreds of CSI parameters
            out.extend_from_slice(b"\x1b[");
            let n = *r.pick(&[16u64, 17, 31, 32, 33, 40, 64, 65, 200]);
            for i in 0..n {
                if i > 0 {
                    out.push(b';');
                }
                out.extend_from_slice(format!("{}", *r.pick(&[0u32, 1, 4, 7, 31, 38, 5, 196, 2, 48])).as_bytes());
            }
            if r.chance(1, 3) {
                // abandoned (CAN / SUB / $x), other traffic, then another long list
                out.extend_from_slice(*r.pick(&[&b"\x18"[..], b"\x1a", b"$p"]));
                // traffic that completes no CSI in between
                out.extend_from_slice(*r.pick(&[&b"ab\r\n\x1b7c"[..], b"", b"x\x1b]2;t\x07", b"\x1b[3\x18y"]));
                out.extend_from_slice(b"\x1b[");
                let n2 = *r.pick(&[33u64, 34, 40, 64]);
                for i in 0..n2 {
                    if i > 0 {
                        out.push(b';');
                    }
                    out.extend_from_slice(format!("{}", 1 + i % 9).as_bytes());
                }
            }
            out.push(*r.pick(b"mmmHrhl"));
            out.extend_from_slice(b"x");
        }
        2 => {
            // a long run of text in one go
            let n = *r.pick(&[300u64, 1024, 4096, 16384]) + r.below(5);
            for _ in 0..n {
                push_char(&mut out, text_char(r, Focus::Text), utf8);
            }
        }
        3 => {
            // kilobytes of ill-formed bytes
            let n = *r.pick(&[1024usize, 4096, 16383, 16384, 16385, 32768]);
            let b = *r.pick(&[0xffu8, 0x80, 0xc0, 0xe2, 0xf0, 0xed]);
            let solid = r.chance(1, 2);
            for i in 0..n {
                out.push(if !solid && i % 97 == 96 { b'a' } else { b });
            }
            out.extend_from_slice(b"end");
        }
        4 => {
            // hundreds of repetitions of one short editing sequence
            let seqs: [&[u8]; 8] = [b"\x1bH", b"\x1b[g", b"\x1b(0", b"\x1b)U", b"\x1b7", b"\x1b8", b"\x1b[C", b"\t"];
            let a = *r.pick(&seqs);
            let b = *r.pick(&seqs);
            let n = *r.pick(&[255u64, 256, 257, 300, 1000]);
            for i in 0..n {
                out.extend_from_slice(if i % 2 == 0 { a } else { b });
            }
            out.extend_from_slice(b"\t\x1b8x");
        }
        _ => {
            // a very long digit run and a very long unknown sequence
            out.extend_from_slice(b"\x1b[");
            for _ in 0..*r.pick(&[40u64, 300, 5000]) {
                out.push(*r.pick(b"0123456789"));
            }
            out.push(*r.pick(b"CHmz"));
            out.extend_from_slice(b"y");
        }
    }
    out
}

pub fn program(r: &mut Rng, p: &Profile, g: Geo, utf8: bool, len: usize) -> Session {
    let kinds = [Kind::Grammar, Kind::Text, Kind::Editor, Kind::Soup, Kind::Captured, Kind::CharsetSweep];
    let mut w = p.kinds;
    if utf8 {
        w[5] /= 4; // sweeps matter in 8-bit mode
    }
    let kind = kinds[r.weighted(&w)];
    let mut out = Vec::new();
    match kind {
        Kind::Grammar => {
            let risky = r.chance(1, 3);
            tokens_with_repeats(r, &mut out, utf8, g, p.focus, risky, len);
        }
        Kind::Text => {
            mode_prelude(r, &mut out);
            while out.len() < len {
                if r.chance(1, 6) {
                    c0(r, &mut out, p.focus);
                } else if r.chance(1, 10) {
                    token(r, &mut out, utf8, g, p.focus, false);
                } else {
                    text_run(r, &mut out, utf8, if p.focus == Focus::Any { Focus::Text } else { p.focus }, g);
                }
            }
        }
        Kind::Editor => editor(r, &mut out, g, utf8, p.focus, len),
        Kind::Soup => soup(r, &mut out, len),
        Kind::Captured => {
            let f = CAPTURED[r.below(7) as usize];
            let l = len.min(f.len());
            let start = r.below((f.len() - l + 1) as u64) as usize;
            out.extend_from_slice(&f[start..start + l]);
        }
        Kind::CharsetSweep => {
            while out.len() < len {
                charset_sweep(r, &mut out, g);
                if r.chance(1, 3) {
                    token(r, &mut out, utf8, g, Focus::Charset, false);
                }
            }
        }
    }
    Session { bytes: out, kind }
}

// ---------------------------------------------------------------------------------- line

#[derive(Default, Clone, Debug)]
pub struct FaultCounts {
    pub v: Vec<(String, u32)>,
}
impl FaultCounts {
    pub fn hit(&mut self, k: &str) {
        for e in self.v.iter_mut() {
            if e.0 == k {
                e.1 += 1;
                return;
            }
        }
        self.v.push((k.to_owned(), 1));
    }
}

/// Corruption happens before delivery: oracles always see the delivered bytes.
pub fn corrupt(r: &mut Rng, bytes: &mut Vec<u8>, fc: &mut FaultCounts) {
    if bytes.is_empty() {
        return;
    }
    // a random subset of fault kinds is enabled per run
    let enabled: Vec<bool> = (0..7).map(|_| r.chance(1, 2)).collect();
    let n = r.range(1, 1 + (bytes.len() as u64 / 40).min(4));
    for _ in 0..n {
        if bytes.is_empty() {
            break;
        }
        let i = r.below(bytes.len() as u64) as usize;
        let k = r.below(7) as usize;
        if !enabled[k] {
            continue;
        }
        match k {
            0 => {
                bytes[i] ^= 1 << r.below(8);
                fc.hit("bit_flip");
            }
            1 => {
                bytes[i] = r.below(256) as u8;
                fc.hit("byte_subst");
            }
            2 => {
                bytes.remove(i);
                fc.hit("byte_drop");
            }
            3 => {
                let b = bytes[i];
                bytes.insert(i, b);
                fc.hit("byte_dup");
            }
            4 => {
                let len = r.range(1, 16) as usize;
                let noise: Vec<u8> = (0..len).map(|_| r.below(256) as u8).collect();
                let tail = bytes.split_off(i);
                bytes.extend_from_slice(&noise);
                bytes.extend_from_slice(&tail);
                fc.hit("noise_burst");
            }
            5 => {
                bytes.truncate(i);
                fc.hit("truncate");
            }
            _ => {
                // program crash followed by what a shell prints afterwards
                bytes.truncate(i);
                bytes.extend_from_slice(b"\r\n$ ");
                fc.hit("restart");
            }
        }
    }
}

/// Cut a delivered stream into feed() arguments. `char_safe`: cut only at UTF-8 character
/// boundaries of a valid string (character front end).
pub fn cut(r: &mut Rng, bytes: &[u8], char_safe: bool, fc: &mut FaultCounts) -> Vec<Vec<u8>> {
    let n = bytes.len();
    let ok = |i: usize| -> bool { !char_safe || i == n || (bytes[i] & 0xc0) != 0x80 };
    let mut cuts: Vec<usize> = Vec::new();
    match r.below(11) {
        0..=1 => {}
        10 => {
            // fixed-size reads (buffer sizes of real readers), offset by a short first read
            let size = *r.pick(&[2usize, 3, 4, 7, 8, 15, 16, 31, 32, 33, 62, 63, 64, 65, 127, 128, 129]);
            let mut i = r.range(0, size as u64) as usize;
            while i < n {
                if i > 0 {
                    cuts.push(i);
                }
                i += size;
            }
        }
        2..=3 => {
            for i in 1..n {
                cuts.push(i);
            }
        }
        4..=6 => {
            let k = r.range(1, 6);
            for _ in 0..k {
                if n > 1 {
                    cuts.push(r.range(1, n as u64 - 1) as usize);
                }
            }
        }
        _ => {
            // biased: right after ESC, inside CSI parameters, inside multi-byte scalars, CR|LF
            for i in 1..n {
                let p = bytes[i - 1];
                let c = bytes[i];
                let interesting = p == 0x1b
                    || p == b'['
                    || p == b']'
                    || p == b';'
                    || p.is_ascii_digit()
                    || (c & 0xc0) == 0x80
                    || (p == b'\r' && c == b'\n')
                    || p == b'('
                    || p == b'#'
                    || p == b'%'
                    || p == b'?';
                if (interesting && r.chance(1, 3)) || r.chance(1, 40) {
                    cuts.push(i);
                }
            }
        }
    }
    cuts.sort();
    cuts.dedup();
    let mut out = Vec::new();
    let mut last = 0;
    for c in cuts {
        if c > last && c < n && ok(c) {
            out.push(bytes[last..c].to_vec());
            if (bytes[c] & 0xc0) == 0x80 {
                fc.hit("cut_mid_scalar");
            }
            fc.hit("cut");
            last = c;
            if r.chance(1, 12) {
                out.push(Vec::new());
                fc.hit("empty_read");
            }
        }
    }
    out.push(bytes[last..].to_vec());
    if r.chance(1, 10) {
        out.insert(0, Vec::new());
        fc.hit("empty_read");
    }
    out
}

// ----------------------------------------------------------------------------- operator

pub fn api_op(r: &mut Rng, g: Geo, focus: Focus) -> Op {
    use Op::*;
    let n = |r: &mut Rng| api_num(r, g);
    // focused subsets first
    let focused: Option<Op> = match focus {
        Focus::Movement if r.chance(3, 4) => Some(match r.below(12) {
            0 => CursorUp(n(r)),
            1 => CursorDown(n(r)),
            2 => CursorForward(n(r)),
            3 => CursorBack(n(r)),
            4 => CursorDown1(n(r)),
            5 => CursorUp1(n(r)),
            6 => CursorToColumn(n(r)),
            7 => CursorToLine(n(r)),
            8 | 9 => CursorPosition(n(r), n(r)),
            10 => Backspace,
            _ => CarriageReturn,
        }),
        Focus::Scroll if r.chance(3, 4) => Some(match r.below(8) {
            0 => Index,
            1 => ReverseIndex,
            2 => Linefeed,
            3 => InsertLines(n(r)),
            4 => DeleteLines(n(r)),
            5 | 6 => SetMargins(n(r), n(r)),
            _ => CursorPosition(n(r), n(r)),
        }),
        Focus::Erase if r.chance(3, 4) => Some(match r.below(4) {
            0 => EraseInDisplay(Some(*r.pick(&[0u32, 1, 2, 3, 4, 5, 9999]))),
            1 => EraseInLine(if r.chance(1, 6) { None } else { Some(*r.pick(&[0u32, 1, 2, 3, 4, 5, 9999])) }),
            2 => EraseCharacters(n(r)),
            _ => CursorPosition(n(r), n(r)),
        }),
        Focus::Sgr if r.chance(3, 4) => Some(Sgr(sgr_list(r))),
        Focus::Modes if r.chance(3, 4) => {
            let private = r.chance(1, 2);
            let k = *r.pick(&[1u64, 1, 1, 2, 3]);
            let v: Vec<u32> = (0..k)
                .map(|_| if r.chance(4, 5) { *r.pick(MODE_NUMS) } else { r.range(0, 9999) as u32 })
                .collect();
            Some(if r.chance(1, 2) { SetMode(v, private) } else { ResetMode(v, private) })
        }
        Focus::Resize if r.chance(1, 4) => Some(match r.below(4) {
            0 => SetMode(vec![3], true),
            1 => ResetMode(vec![3], true),
            2 => SetMode(vec![96], false),
            _ => ResetMode(vec![96], false),
        }),
        Focus::InsDel if r.chance(3, 4) => Some(match r.below(4) {
            0 => InsertCharacters(n(r)),
            1 => DeleteCharacters(n(r)),
            2 => EraseInLine(Some(r.below(3) as u32)),
            _ => CursorToColumn(n(r)),
        }),
        Focus::SaveRestore if r.chance(3, 4) => Some(match r.below(8) {
            0 | 1 => SaveCursor,
            2 | 3 => RestoreCursor,
            4 => ShiftOut,
            5 => DefineCharset(r.pick(&["B", "0", "U", "V"]).to_string(), r.pick(&["(", ")"]).to_string()),
            6 => Sgr(sgr_list(r)),
            _ => CursorPosition(n(r), n(r)),
        }),
        Focus::Tabs if r.chance(3, 4) => Some(match r.below(6) {
            0 => SetTabStop,
            1 => ClearTabStop(if r.chance(1, 2) { None } else { Some(*r.pick(&[0u32, 3, 1, 2, 9999])) }),
            2 | 3 => Tab,
            _ => CursorToColumn(n(r)),
        }),
        Focus::Charset if r.chance(3, 4) => Some(match r.below(5) {
            0 => ShiftOut,
            1 => ShiftIn,
            2 => DefineCharset(
                r.pick(&["B", "0", "U", "V", "A", "K", "", "BB"]).to_string(),
                r.pick(&["(", ")", "(", ")", "*", ""]).to_string(),
            ),
            _ => {
                let c = char::from_u32(r.below(256) as u32).unwrap();
                Draw(c.to_string())
            }
        }),
        _ => None,
    };
    if let Some(op) = focused {
        return op;
    }
    match r.below(48) {
        0 => AlignmentDisplay,
        1 => DefineCharset(
            r.pick(&["B", "0", "U", "V", "A", ""]).to_string(),
            r.pick(&["(", ")", "x"]).to_string(),
        ),
        2 => Reset,
        3 => Index,
        4 => Linefeed,
        5 => ReverseIndex,
        6 => SetTabStop,
        7 => SaveCursor,
        8 => RestoreCursor,
        9 => ShiftOut,
        10 => ShiftIn,
        11 => Bell,
        12 => Backspace,
        13 => Tab,
        14 => CarriageReturn,
        15 if r.chance(1, 12) => {
            // a long string in one draw() call (only the API can do that): several wraps, an
            // unprintable somewhere inside
            let k = *r.pick(&[40u64, 64, 65, 100, 256, 257, 300]) + r.below(4);
            let bad = if r.chance(1, 2) { r.below(k) } else { u64::MAX };
            let mut s = String::new();
            for i in 0..k {
                if i == bad {
                    s.push(*r.pick(&['\u{7}', '\u{200b}', '\u{7f}', '\u{0}']));
                } else if r.chance(1, 25) {
                    s.push(*r.pick(WIDE));
                } else {
                    s.push(*r.pick(&NARROW.chars().collect::<Vec<_>>()));
                }
            }
            Draw(s)
        }
        15 | 16 | 17 => {
            let k = r.range(1, 5);
            let mut s = String::new();
            for _ in 0..k {
                s.push(text_char(r, if focus == Focus::Any { Focus::Text } else { focus }));
            }
            Draw(s)
        }
        18 => InsertCharacters(n(r)),
        19 => CursorUp(n(r)),
        20 => CursorDown(n(r)),
        21 => CursorForward(n(r)),
        22 => CursorBack(n(r)),
        23 => CursorDown1(n(r)),
        24 => CursorUp1(n(r)),
        25 => CursorToColumn(n(r)),
        26 | 27 => CursorPosition(n(r), n(r)),
        28 => EraseInDisplay(if r.chance(1, 8) { None } else { Some(*r.pick(&[0u32, 1, 2, 3, 4, 9999])) }),
        29 => EraseInLine(if r.chance(1, 8) { None } else { Some(*r.pick(&[0u32, 1, 2, 3, 4, 9999])) }),
        30 => InsertLines(n(r)),
        31 => DeleteLines(n(r)),
        32 => DeleteCharacters(n(r)),
        33 => EraseCharacters(n(r)),
        34 => ReportDeviceAttributes(n(r)),
        35 => CursorToLine(n(r)),
        36 => ClearTabStop(if r.chance(1, 3) { None } else { Some(*r.pick(&[0u32, 3, 1, 2, 9999])) }),
        37 | 38 => {
            let private = r.chance(1, 2);
            let k = *r.pick(&[1u64, 1, 1, 2, 3]);
            let v: Vec<u32> = (0..k)
                .map(|_| if r.chance(4, 5) { *r.pick(MODE_NUMS) } else { r.range(0, 9999) as u32 })
                .collect();
            if r.chance(1, 2) {
                SetMode(v, private)
            } else {
                ResetMode(v, private)
            }
        }
        39 | 40 => Sgr(sgr_list(r)),
        41 => SetTitle("T".repeat(r.below(4) as usize)),
        42 => SetIconName("I".repeat(r.below(4) as usize)),
        43 | 44 => SetMargins(n(r), n(r)),
        45 => Csi(
            (*r.pick(ALL_FINALS) as char).to_string(),
            (0..r.below(4)).map(|_| api_num(r, g).unwrap_or(0)).collect(),
            r.chance(1, 5),
        ),
        46 => Esc((*r.pick(b"cDEMH78=Z") as char).to_string()),
        _ => Basic((*r.pick(b"\x07\x08\t\n\x0b\x0c\r\x0e\x0f") as char).to_string()),
    }
}

pub fn resize_target(r: &mut Rng, g: Geo, cur: Geo) -> (u32, u32) {
    // (lines, columns); the envelope is 140x40 unless the run started on a bigger screen
    let (cap_l, cap_c) = (g.lines.max(40) + 6, g.cols.max(140) + 6);
    match r.below(12) {
        0 => (cur.lines, cur.cols),
        1 => (1, 1),
        2 => (cur.lines, (cur.cols + r.range(1, 5) as u32).min(cap_c)),
        3 => (cur.lines, cur.cols.saturating_sub(r.range(1, 3) as u32).max(1)),
        4 => ((cur.lines + r.range(1, 3) as u32).min(cap_l), cur.cols),
        5 => (cur.lines.saturating_sub(r.range(1, 3) as u32).max(1), cur.cols),
        6 => (g.lines, g.cols),
        7 => (r.range(1, (g.lines + 2) as u64) as u32, r.range(1, (g.cols + 2) as u64) as u32),
        8 => (1, r.range(1, 20) as u32),
        9 => (r.range(1, 12) as u32, 1),
        10 => ((cur.lines + 1).min(cap_l), (cur.cols + 1).min(cap_c)),
        _ => (r.range(1, cap_l as u64) as u32, r.range(1, cap_c as u64) as u32),
    }
}

// ----------------------------------------------------------------------------- scheduler

/// Expand (profile, seed) into a full trace: geometry, decoder mode, wiring, chunking and the
/// interleaving of Feeder / Renderer / Resizer / Operator steps.
pub fn trace(prop: &str, seed: u64, index: u64, p: &Profile) -> Trace {
    let root = Rng::new(seed ^ crate::prng::hash_str(prop) ^ index.wrapping_mul(0x9E37_79B9_7F4A_7C15));
    let mut rg = root.fork("geometry");
    let mut rc = root.fork("config");
    let mut rw = root.fork("workload");
    let mut rl = root.fork("line");
    let mut rs = root.fork("scheduler");

    let mut g = geometry(&mut rg, p.small_geo_pct);
    if p.focus == Focus::Resize && rg.chance(1, 25) {
        // resize-centred runs: more tall / wide screens (row and column tables past 64 entries)
        g = Geo { cols: *rg.pick(&[20u32, 80, 129, 192, 200]), lines: *rg.pick(&[65u32, 66, 70, 100, 129]) };
    }
    let chars = rc.chance(p.chars_pct as u64, 100);
    let utf8 = !rc.chance(p.eightbit_pct as u64, 100);
    let switching = !chars && rc.chance(p.switch_pct as u64, 100);
    let wiring = if rc.chance(p.wiring_p_pct as u64, 100) { Wiring::P } else { Wiring::Q };
    let has_renderer = rc.chance(p.renderer_pct as u64, 100);
    let has_resizer = rc.chance(p.resizer_pct as u64, 100);
    let has_operator = rc.chance(p.operator_pct as u64, 100);
    let corrupting = !chars && rc.chance(p.corrupt_pct as u64, 100);
    let max_len = if deep() { (p.max_len * 3).min(1500) } else { p.max_len };
    let len = match rc.below(10) {
        0..=4 => rc.range(3, 40),
        5..=7 => rc.range(20, if deep() { 300 } else { 120 }),
        _ => rc.range(60, max_len.max(61) as u64),
    } as usize;

    let mut fc = FaultCounts::default();
    let big = p.big_permille > 0 && rc.chance(if deep() { p.big_permille as u64 * 4 } else { p.big_permille as u64 }, 1000);
    let sess = if big {
        fc.hit("big_input");
        Session { bytes: big_session(&mut rw, utf8), kind: Kind::Soup }
    } else {
        program(&mut rw, p, g, utf8, len)
    };
    let mut bytes = sess.bytes;
    if chars {
        // the character front end takes a String: make the session valid UTF-8
        bytes = String::from_utf8_lossy(&bytes).into_owned().into_bytes();
    }
    if corrupting {
        corrupt(&mut rl, &mut bytes, &mut fc);
    }
    let chunks = cut(&mut rl, &bytes, chars, &mut fc);

    // foreign-step budget
    let renderer_w: u32 = if has_renderer { *rs.pick(&[1u32, 3, 10]) } else { 0 };
    let resizer_left = if has_resizer { rs.range(1, 4) } else { 0 };
    let operator_w: u32 = if has_operator { *rs.pick(&[1u32, 4, 12]) } else { 0 };
    let mut resizer_left = resizer_left;
    let mut foreign_budget: i64 = if deep() { 160 } else { 60 };
    let mut cur = g;

    let mut steps: Vec<Step> = Vec::new();
    let mut foreign = |rs: &mut Rng, steps: &mut Vec<Step>, cur: &mut Geo, resizer_left: &mut u64, budget: &mut i64| {
        if *budget <= 0 {
            return;
        }
        let rw_ = if *resizer_left > 0 { 2 } else { 0 };
        let w = [renderer_w, rw_, operator_w];
        if w.iter().sum::<u32>() == 0 {
            return;
        }
        *budget -= 1;
        match rs.weighted(&w) {
            0 => steps.push(if rs.chance(1, 5) { Step::Display } else { Step::Paint }),
            1 => {
                *resizer_left -= 1;
                let (l, c) = resize_target(rs, g, *cur);
                *cur = Geo { cols: c, lines: l };
                steps.push(Step::Resize(l, c));
            }
            _ => steps.push(Step::Api(api_op(rs, *cur, p.focus))),
        }
    };

    let n_chunks = chunks.len();
    for (ci, ch) in chunks.into_iter().enumerate() {
        if switching && rs.chance(1, 6) {
            steps.push(Step::Charset(rs.pick(&["@", "G", "8", "x"]).to_string()));
            // a switch and an immediate switch back, with nothing fed in between
            if rs.chance(1, 3) {
                steps.push(Step::Charset(rs.pick(&["@", "G", "8"]).to_string()));
            }
        }
        steps.push(Step::Feed(ch));
        match wiring {
            Wiring::P => {
                if rs.chance(1, 3) || ci + 1 == n_chunks {
                    let k = rs.below(3);
                    for _ in 0..k {
                        foreign(&mut rs, &mut steps, &mut cur, &mut resizer_left, &mut foreign_budget);
                    }
                }
            }
            Wiring::Q => {
                if p.midchunk {
                    // let other actors in between queued events
                    let rounds = match rs.below(6) {
                        0 | 1 => 0,
                        2 | 3 => 1,
                        4 => 2,
                        _ => rs.range(2, 6),
                    };
                    for _ in 0..rounds {
                        steps.push(Step::Apply(*rs.pick(&[0u32, 1, 1, 1, 2, 3, 5, 8])));
                        foreign(&mut rs, &mut steps, &mut cur, &mut resizer_left, &mut foreign_budget);
                    }
                    if rs.chance(3, 4) {
                        steps.push(Step::Apply(100_000));
                    }
                } else {
                    steps.push(Step::Apply(100_000));
                    if rs.chance(1, 3) {
                        foreign(&mut rs, &mut steps, &mut cur, &mut resizer_left, &mut foreign_budget);
                    }
                }
            }
        }
    }
    // trailing foreign steps (a final paint is common)
    if wiring == Wiring::Q {
        steps.push(Step::Apply(100_000));
    }
    let k = rs.below(3);
    for _ in 0..k {
        foreign(&mut rs, &mut steps, &mut cur, &mut resizer_left, &mut foreign_budget);
    }

    Trace {
        prop: prop.to_owned(),
        seed,
        index,
        kind: format!("{:?}", sess.kind),
        columns: g.cols,
        lines: g.lines,
        front: if chars { Front::Chars } else { Front::Bytes },
        utf8,
        wiring,
        steps,
        extra: Vec::new(),
        faults: fc.v,
    }
}
