pub mod model;
pub mod tables;
pub mod recog;
