//! Step relations (DESIGN 8.3): the documented semantics of every operation as a relation
//! R_op(pre, args, post) over snapshots. Re-anchored on the real pre-state at every step; where
//! the documentation is silent or tests pin a quirk, several outcomes are admitted (8.4).

use memterm::modes::{DECAWM, DECCOLM, DECOM, DECSCNM, DECTCEM, IRM, LNM};
use unicode_normalization::char::is_combining_mark;
use unicode_normalization::UnicodeNormalization;
use unicode_width::UnicodeWidthChar;

use crate::ops::Op;
use crate::snap::{blank_of, Cell, SaveSnap, Snapshot};
use crate::spec::tables;
use std::rc::Rc;

#[derive(Default)]
pub struct Exp {
    /// admissible post-states (the `dirty` component of these is meaningless)
    pub alts: Vec<Snapshot>,
    /// post.dirty must contain every row of the post screen
    pub dirty_all: bool,
    /// no relation is defined for this operation (nothing is compared)
    pub unchecked: bool,
    /// only the mode set and size are defined (SM/RM lists with several side-effect modes)
    pub mode_only: bool,
    /// cursor position is only required to be inside the post screen
    pub cursor_free: bool,
    /// components not compared
    pub skip: Vec<&'static str>,
    /// leniencies exercised (DESIGN 8.4)
    pub lenient: Vec<&'static str>,
    /// the operation scrolled the region (set for draw: autowrap at the bottom margin)
    pub scrolled: bool,
    /// width change: only the stops below this column (visible before and after) are compared
    pub tab_limit: Option<u32>,
}

fn n1(n: &Option<u32>) -> u32 {
    match n {
        None | Some(0) => 1,
        Some(n) => *n,
    }
}

fn blank_row(s: &Snapshot) -> Rc<Vec<Cell>> {
    Rc::new(vec![s.blank(); s.columns as usize])
}

fn erased(s: &Snapshot) -> Cell {
    let mut c = s.attr.clone();
    c.data = " ".to_owned();
    c
}

fn scroll_up(s: &mut Snapshot, t: u32, b: u32) {
    // rows t..=b move up by one, row b blank
    let blank = blank_row(s);
    let (t, b) = (t as usize, b as usize);
    if b < s.grid.len() && t <= b {
        s.grid.remove(t);
        s.grid.insert(b, blank);
    }
}

fn scroll_down(s: &mut Snapshot, t: u32, b: u32) {
    let blank = blank_row(s);
    let (t, b) = (t as usize, b as usize);
    if b < s.grid.len() && t <= b {
        s.grid.remove(b);
        s.grid.insert(t, blank);
    }
}

fn index(s: &mut Snapshot) {
    let (t, b) = s.region();
    if s.y == b {
        scroll_up(s, t, b);
    } else {
        s.y = (s.y + 1).min(b);
    }
}

fn linefeed(s: &mut Snapshot) {
    index(s);
    if s.has(LNM) {
        s.x = 0;
    }
}

fn reverse_index(s: &mut Snapshot) {
    let (t, b) = s.region();
    if s.y == t {
        scroll_down(s, t, b);
    } else {
        s.y = s.y.saturating_sub(1).max(t);
    }
}

fn ich(s: &mut Snapshot, n: u32) {
    let c = s.columns;
    if s.x >= c {
        return;
    }
    let k = n.min(c - s.x) as usize;
    let blank = s.blank();
    let x = s.x as usize;
    let y = s.y as usize;
    let row = s.row_mut(y);
    for _ in 0..k {
        row.pop();
    }
    for _ in 0..k {
        row.insert(x, blank.clone());
    }
}

fn dch(s: &mut Snapshot, n: u32) {
    let c = s.columns;
    if s.x >= c {
        return;
    }
    let k = n.min(c - s.x) as usize;
    let blank = s.blank();
    let x = s.x as usize;
    let y = s.y as usize;
    let row = s.row_mut(y);
    for _ in 0..k {
        row.remove(x);
    }
    for _ in 0..k {
        row.push(blank.clone());
    }
}

fn home(s: &mut Snapshot) {
    // cursor_position(None, None)
    s.x = 0;
    s.y = if s.has(DECOM) { s.margins.map(|m| m.0).unwrap_or(0) } else { 0 };
}

fn erase_all(s: &mut Snapshot, with: &Cell) {
    let row = Rc::new(vec![with.clone(); s.columns as usize]);
    for r in s.grid.iter_mut() {
        *r = Rc::clone(&row);
    }
}

fn resize_grid(s: &mut Snapshot, l2: u32, c2: u32) {
    let blank = s.blank();
    let d = s.lines.saturating_sub(l2) as usize;
    let mut g: Vec<Rc<Vec<Cell>>> = Vec::with_capacity(l2 as usize);
    for y in 0..l2 as usize {
        let mut row = Vec::with_capacity(c2 as usize);
        for x in 0..c2 as usize {
            let src = s.grid.get(y + d).and_then(|r| if x < s.columns as usize { r.get(x) } else { None });
            row.push(src.cloned().unwrap_or_else(|| blank.clone()));
        }
        g.push(Rc::new(row));
    }
    s.grid = g;
    s.lines = l2;
    s.columns = c2;
}

pub const COLOR_NAMES: &[&str] = &[
    "default",
    "black",
    "red",
    "green",
    "brown",
    "blue",
    "magenta",
    "cyan",
    "white",
    "brightblack",
    "brightred",
    "brightgreen",
    "brightbrown",
    "brightblue",
    "brightmagenta",
    "brightcyan",
    "brightwhite",
];

const ANSI: [&str; 8] = ["black", "red", "green", "brown", "blue", "magenta", "cyan", "white"];

/// xterm 256-colour palette, computed independently of graphics.rs
pub fn palette(n: u32) -> String {
    const BASE: [(u8, u8, u8); 16] = [
        (0x00, 0x00, 0x00),
        (0xcd, 0x00, 0x00),
        (0x00, 0xcd, 0x00),
        (0xcd, 0xcd, 0x00),
        (0x00, 0x00, 0xee),
        (0xcd, 0x00, 0xcd),
        (0x00, 0xcd, 0xcd),
        (0xe5, 0xe5, 0xe5),
        (0x7f, 0x7f, 0x7f),
        (0xff, 0x00, 0x00),
        (0x00, 0xff, 0x00),
        (0xff, 0xff, 0x00),
        (0x5c, 0x5c, 0xff),
        (0xff, 0x00, 0xff),
        (0x00, 0xff, 0xff),
        (0xff, 0xff, 0xff),
    ];
    const CUBE: [u8; 6] = [0x00, 0x5f, 0x87, 0xaf, 0xd7, 0xff];
    let (r, g, b) = if n < 16 {
        BASE[n as usize]
    } else if n < 232 {
        let i = n - 16;
        (CUBE[(i / 36) as usize], CUBE[((i / 6) % 6) as usize], CUBE[(i % 6) as usize])
    } else {
        let v = (8 + 10 * (n - 232)) as u8;
        (v, v, v)
    };
    format!("{:02x}{:02x}{:02x}", r, g, b)
}

/// SGR fold (DESIGN 8.3 SGR)
pub fn sgr(attr: &Cell, list: &[u32], decscnm: bool) -> Cell {
    let mut a = attr.clone();
    let list: Vec<u32> = if list.is_empty() { vec![0] } else { list.to_vec() };
    let mut i = 0;
    while i < list.len() {
        let c = list[i];
        i += 1;
        match c {
            0 => {
                let data = a.data.clone();
                a = blank_of(decscnm);
                a.data = data;
            }
            1 => a.bold = true,
            3 => a.italics = true,
            4 => a.underscore = true,
            5 => a.blink = true,
            7 => a.reverse = true,
            9 => a.strikethrough = true,
            22 => a.bold = false,
            23 => a.italics = false,
            24 => a.underscore = false,
            25 => a.blink = false,
            27 => a.reverse = false,
            29 => a.strikethrough = false,
            30..=37 => a.fg = ANSI[(c - 30) as usize].to_owned(),
            39 => a.fg = "default".to_owned(),
            40..=47 => a.bg = ANSI[(c - 40) as usize].to_owned(),
            49 => a.bg = "default".to_owned(),
            90..=97 => a.fg = format!("bright{}", ANSI[(c - 90) as usize]),
            100..=107 => a.bg = format!("bright{}", ANSI[(c - 100) as usize]),
            38 | 48 => {
                if i >= list.len() {
                    break;
                }
                let kind = list[i];
                i += 1;
                let mut colour: Option<String> = None;
                if kind == 5 {
                    if i < list.len() {
                        let m = list[i];
                        i += 1;
                        if m <= 255 {
                            colour = Some(palette(m));
                        }
                    }
                } else if kind == 2 {
                    let have = (list.len() - i).min(3);
                    if have == 3 {
                        let (r, g, b) = (list[i], list[i + 1], list[i + 2]);
                        if r <= 255 && g <= 255 && b <= 255 {
                            colour = Some(format!("{:02x}{:02x}{:02x}", r, g, b));
                        }
                    }
                    i += have;
                }
                if let Some(col) = colour {
                    if c == 38 {
                        a.fg = col;
                    } else {
                        a.bg = col;
                    }
                }
            }
            _ => {}
        }
    }
    a
}

fn translate(s: &Snapshot, text: &str) -> Vec<char> {
    let table = if s.charset == 1 { &s.g1 } else { &s.g0 };
    text.chars().map(|c| if (c as u32) < 256 { table[c as usize] } else { c }).collect()
}

struct DrawFlags {
    zw_wraps: bool,
    /// bit i set = the i-th combining mark that lands on a blank cell is ignored (else appended)
    comb_ignore_mask: u32,
    stop_at_unprintable: bool,
    nfc: bool,
}

fn draw_with(
    pre: &Snapshot,
    text: &[char],
    f: &DrawFlags,
    used: &mut [bool; 4],
    scrolled: &mut bool,
    blank_marks: &mut u32,
) -> Snapshot {
    let mut s = pre.clone();
    let c = s.columns;
    let mut mark_no = 0u32;
    for &ch in text {
        let w = ch.width().unwrap_or(0) as u32;
        if s.x == c {
            if s.has(DECAWM) {
                if w > 0 || f.zw_wraps {
                    s.x = 0;
                    if s.y == s.region().1 {
                        *scrolled = true;
                    }
                    linefeed(&mut s);
                }
                if w == 0 {
                    used[0] = true;
                }
            } else if w > 0 {
                s.x = c.saturating_sub(w);
            }
        }
        if s.has(IRM) && w > 0 {
            ich(&mut s, w);
        }
        let (x, y) = (s.x as usize, s.y as usize);
        if w == 1 {
            if x < c as usize {
                let mut cell = s.attr.clone();
                cell.data = ch.to_string();
                s.set_cell(y, x, cell);
            }
        } else if w == 2 {
            if x < c as usize {
                let mut cell = s.attr.clone();
                cell.data = ch.to_string();
                s.set_cell(y, x, cell);
                if x + 1 < c as usize {
                    let mut ph = s.attr.clone();
                    ph.data = String::new();
                    s.set_cell(y, x + 1, ph);
                }
            }
        } else if is_combining_mark(ch) {
            let target = if x > 0 {
                Some((y, x - 1))
            } else if y > 0 {
                Some((y - 1, c as usize - 1))
            } else {
                None
            };
            if let Some((ty, tx)) = target {
                if tx < c as usize {
                    let blank = s.blank();
                    let is_blank = s.grid[ty][tx] == blank;
                    let mut ignore = false;
                    if is_blank {
                        used[1] = true;
                        ignore = mark_no < 32 && (f.comb_ignore_mask >> mark_no) & 1 == 1;
                        mark_no += 1;
                        *blank_marks = mark_no;
                    }
                    if !ignore {
                        let cell = &mut s.row_mut(ty)[tx];
                        let base: String = if f.nfc { cell.data.nfc().collect() } else { cell.data.clone() };
                        if base != cell.data {
                            used[3] = true;
                        }
                        cell.data = base + &ch.to_string();
                    }
                }
            }
        } else {
            if text.len() > 1 {
                used[2] = true;
            }
            if f.stop_at_unprintable {
                break;
            }
        }
        if w > 0 {
            s.x = (s.x + w).min(c);
        }
    }
    s
}

fn push_unique(v: &mut Vec<Snapshot>, s: Snapshot) {
    if !v.iter().any(|o| o.diff(&s, &["dirty"]).is_none()) {
        v.push(s);
    }
}

fn draw(pre: &Snapshot, text: &str, e: &mut Exp) {
    let chars = translate(pre, text);
    // primary reading first (what pyte does), then every combination of admitted alternatives.
    // A combining mark over a blank cell may be appended or ignored *independently per mark*: the
    // abstraction cannot tell a never-written cell from one holding a written space.
    let mut used = [false; 4];
    let mut scrolled = false;
    let mut blank_marks = 0u32;
    let primary = DrawFlags { zw_wraps: true, comb_ignore_mask: 0, stop_at_unprintable: true, nfc: true };
    let s0 = draw_with(pre, &chars, &primary, &mut used, &mut scrolled, &mut blank_marks);
    if scrolled {
        e.scrolled = true;
    }
    push_unique(&mut e.alts, s0);
    // every combining mark of the text may be the one that meets a blank cell (which marks do
    // depends on the choices made for the earlier ones): up to 32 patterns
    let _ = blank_marks;
    let k = if used[1] { (chars.iter().filter(|c| is_combining_mark(**c)).count() as u32).min(5) } else { 0 };
    for bits in 0..8u32 {
        if (bits & 1 != 0 && !used[0]) || (bits & 2 != 0 && !used[2]) || (bits & 4 != 0 && !used[3]) {
            continue;
        }
        for mask in 0..(1u32 << k) {
            if bits == 0 && mask == 0 {
                continue;
            }
            let f = DrawFlags {
                zw_wraps: bits & 1 == 0,
                comb_ignore_mask: mask,
                stop_at_unprintable: bits & 2 == 0,
                nfc: bits & 4 == 0,
            };
            let mut u = [false; 4];
            let mut sc = false;
            let mut bm = 0u32;
            let s = draw_with(pre, &chars, &f, &mut u, &mut sc, &mut bm);
            if sc {
                e.scrolled = true;
            }
            push_unique(&mut e.alts, s);
        }
    }
    if used[0] {
        e.lenient.push("lenient_zero_width_at_pending_wrap");
    }
    if used[1] {
        e.lenient.push("lenient_combining_on_blank_cell");
    }
    if used[2] {
        e.lenient.push("lenient_multichar_draw_unprintable");
    }
    if used[3] {
        e.lenient.push("lenient_combining_nfc");
    }
}

fn mode_keys(list: &[u32], private: bool) -> Vec<u32> {
    list.iter().map(|m| if private { m << 5 } else { *m }).filter(|m| *m != 0).collect()
}

fn set_reset_mode(pre: &Snapshot, list: &[u32], private: bool, set: bool, e: &mut Exp) {
    let keys = mode_keys(list, private);
    let mut s = pre.clone();
    for k in &keys {
        if set {
            s.mode.insert(*k);
        } else {
            s.mode.remove(k);
        }
    }
    let heavy = [DECCOLM, DECOM, DECSCNM].iter().filter(|m| keys.contains(m)).count();
    if heavy >= 2 {
        e.mode_only = true;
        e.lenient.push("lenient_mode_list_effect_order");
        e.alts.push(s);
        return;
    }
    if keys.contains(&DECTCEM) {
        s.hidden = !set;
    }
    if keys.contains(&DECSCNM) {
        for y in 0..s.grid.len() {
            for c in s.row_mut(y).iter_mut() {
                c.reverse = set;
            }
        }
        s.attr.reverse = set;
        e.dirty_all = true;
    }
    if keys.contains(&DECOM) {
        s.x = 0;
        s.y = if set { s.margins.map(|m| m.0).unwrap_or(0) } else { 0 };
    }
    if keys.contains(&DECCOLM) {
        e.dirty_all = true;
        let old_c = s.columns;
        let mut target: Option<u32> = None;
        let mut saved_alts: Vec<Option<u32>> = vec![s.saved_columns];
        if set {
            target = Some(132);
            saved_alts = vec![Some(old_c)];
            if old_c == 132 {
                saved_alts.push(pre.saved_columns);
                e.lenient.push("lenient_deccolm_already_132");
            }
        } else if old_c == 132 {
            if let Some(sc) = pre.saved_columns {
                target = Some(sc);
                saved_alts = vec![None];
            }
        }
        if let Some(c2) = target {
            if c2 != old_c {
                let l = s.lines;
                resize_grid(&mut s, l, c2);
                s.margins = None;
                e.skip.push("tabstops");
                e.tab_limit = Some(old_c.min(c2));
            }
        }
        home(&mut s);
        // erased cells: blank with default or with the cursor's rendition
        let with_cursor = erased(&s);
        let with_default = s.blank();
        e.lenient.push("lenient_deccolm_erase_rendition");
        for sc in saved_alts {
            for w in [&with_cursor, &with_default] {
                let mut a = s.clone();
                a.saved_columns = sc;
                erase_all(&mut a, w);
                push_unique(&mut e.alts, a);
            }
        }
        return;
    }
    e.alts.push(s);
}

/// The relation for one operation from a given pre-state.
pub fn expect(pre: &Snapshot, op: &Op) -> Exp {
    use Op::*;
    let mut e = Exp::default();
    let op = op.lower();
    // an ill-formed pre-state (C09's business) has no defined successor
    let bad_margins = pre.margins.map(|(mt, mb)| mt >= mb || mb >= pre.lines).unwrap_or(false);
    if pre.lines == 0 || pre.columns == 0 || pre.y >= pre.lines || pre.x > pre.columns || bad_margins {
        e.unchecked = true;
        e.lenient.push("stop_illformed_pre_state");
        return e;
    }
    let mut s = pre.clone();
    let (l, c) = (pre.lines, pre.columns);
    let (t, b) = pre.region();
    match &op {
        Nop | Bell | ReportDeviceAttributes(_) | Display | Paint | ClearDirty => e.alts.push(s),
        AlignmentDisplay => {
            e.unchecked = true;
            e.dirty_all = true;
        }
        DefineCharset(code, mode) => {
            if let Some(tb) = tables::table(code) {
                if mode == "(" {
                    s.g0 = tb;
                } else if mode == ")" {
                    s.g1 = tb;
                }
            }
            e.alts.push(s);
        }
        Reset => {
            s.mode = [DECAWM, DECTCEM].into_iter().collect();
            let blank = blank_of(false);
            s.grid = vec![Rc::new(vec![blank.clone(); c as usize]); l as usize];
            s.x = 0;
            s.y = 0;
            s.attr = blank;
            s.hidden = false;
            s.margins = None;
            s.tabstops = (1..).map(|k| k * 8).take_while(|x| *x < c).collect();
            s.title.clear();
            s.icon.clear();
            s.charset = 0;
            s.g0 = tables::lat1();
            s.g1 = tables::vt100();
            s.saved_columns = None;
            e.dirty_all = true;
            e.alts.push(s);
        }
        Index => {
            index(&mut s);
            e.alts.push(s);
        }
        Linefeed => {
            linefeed(&mut s);
            e.alts.push(s);
        }
        ReverseIndex => {
            reverse_index(&mut s);
            e.alts.push(s);
        }
        SetTabStop => {
            if s.x >= c {
                e.lenient.push("lenient_hts_pending_wrap");
                let mut a = s.clone();
                a.tabstops.insert(c - 1);
                e.alts.push(a);
                s.tabstops.insert(s.x);
                e.alts.push(s);
            } else {
                s.tabstops.insert(s.x);
                e.alts.push(s);
            }
        }
        SaveCursor => {
            s.savepoints.push(SaveSnap {
                x: s.x,
                y: s.y,
                attr: s.attr.clone(),
                hidden: s.hidden,
                g0: s.g0,
                g1: s.g1,
                charset: s.charset,
                origin: s.has(DECOM),
                wrap: s.has(DECAWM),
            });
            e.alts.push(s);
        }
        RestoreCursor => {
            if let Some(p) = s.savepoints.pop() {
                s.g0 = p.g0;
                s.g1 = p.g1;
                s.charset = p.charset;
                if p.origin {
                    s.mode.insert(DECOM);
                }
                if p.wrap {
                    s.mode.insert(DECAWM);
                }
                s.attr = p.attr.clone();
                s.hidden = p.hidden;
                s.y = match s.margins {
                    Some((mt, mb)) => p.y.clamp(mt, mb),
                    None => p.y.min(l - 1),
                };
                s.x = p.x.min(c - 1);
                if p.x >= c {
                    e.lenient.push("lenient_restore_pending_wrap");
                    let mut a = s.clone();
                    a.x = c;
                    e.alts.push(a);
                }
                e.alts.push(s);
            } else {
                s.mode.remove(&DECOM);
                s.x = 0;
                s.y = 0;
                e.alts.push(s);
            }
        }
        ShiftOut => {
            s.charset = 1;
            e.alts.push(s);
        }
        ShiftIn => {
            s.charset = 0;
            e.alts.push(s);
        }
        Backspace => {
            s.x = s.x.min(c - 1).saturating_sub(1);
            e.alts.push(s);
        }
        Tab => {
            let next = s.tabstops.iter().copied().filter(|st| *st > s.x && *st <= c - 1).min();
            s.x = next.unwrap_or(c - 1);
            e.alts.push(s);
        }
        CarriageReturn => {
            s.x = 0;
            e.alts.push(s);
        }
        Draw(text) => draw(pre, text, &mut e),
        InsertCharacters(n) => {
            ich(&mut s, n1(n));
            e.alts.push(s);
        }
        CursorUp(n) => {
            s.y = s.y.saturating_sub(n1(n)).max(t);
            e.alts.push(s);
        }
        CursorDown(n) => {
            s.y = (s.y + n1(n)).min(b);
            e.alts.push(s);
        }
        CursorForward(n) => {
            s.x = (s.x + n1(n)).min(c - 1);
            e.alts.push(s);
        }
        CursorBack(n) => {
            s.x = s.x.min(c - 1).saturating_sub(n1(n));
            e.alts.push(s);
        }
        CursorDown1(n) => {
            s.y = (s.y + n1(n)).min(b);
            s.x = 0;
            e.alts.push(s);
        }
        CursorUp1(n) => {
            s.y = s.y.saturating_sub(n1(n)).max(t);
            s.x = 0;
            e.alts.push(s);
        }
        CursorToColumn(n) => {
            s.x = (n1(n) - 1).min(c - 1);
            e.alts.push(s);
        }
        CursorToLine(n) => {
            let mut row = n1(n) - 1;
            if s.has(DECOM) && s.margins.is_some() {
                row = (row + t).clamp(t, b);
            } else {
                row = row.min(l - 1);
            }
            s.y = row;
            e.alts.push(s);
        }
        CursorPosition(r, col) => {
            let mut row = n1(r) - 1;
            let column = n1(col) - 1;
            let origin = s.has(DECOM) && s.margins.is_some();
            let mut ignored = false;
            if origin {
                row += t;
                if row < t || row > b {
                    ignored = true;
                }
            }
            if !ignored {
                s.x = column.min(c - 1);
                s.y = if origin { row.clamp(t, b) } else { row.min(l - 1) };
            }
            e.alts.push(s);
        }
        EraseInDisplay(how) => {
            let er = erased(&s);
            let (x, y) = (s.x as usize, s.y as usize);
            let apply = |s: &mut Snapshot, sel: u32| match sel {
                0 => {
                    for yy in y..l as usize {
                        for xx in 0..c as usize {
                            if yy > y || xx >= x {
                                s.set_cell(yy, xx, er.clone());
                            }
                        }
                    }
                }
                1 => {
                    for yy in 0..=y.min(l as usize - 1) {
                        for xx in 0..c as usize {
                            if yy < y || xx <= x {
                                s.set_cell(yy, xx, er.clone());
                            }
                        }
                    }
                }
                2 | 3 => erase_all(s, &er),
                _ => {}
            };
            match how {
                None => {
                    e.lenient.push("lenient_ed_absent_selector");
                    e.alts.push(s.clone());
                    apply(&mut s, 0);
                    e.alts.push(s);
                }
                Some(sel) => {
                    apply(&mut s, *sel);
                    e.alts.push(s);
                }
            }
        }
        EraseInLine(how) => {
            let er = erased(&s);
            let (x, y) = (s.x as usize, s.y as usize);
            let sel = how.unwrap_or(0);
            for xx in 0..c as usize {
                let hit = match sel {
                    0 => xx >= x,
                    1 => xx <= x,
                    2 => true,
                    _ => false,
                };
                if hit {
                    s.set_cell(y, xx, er.clone());
                }
            }
            e.alts.push(s);
        }
        EraseCharacters(n) => {
            let er = erased(&s);
            let y = s.y as usize;
            let hi = (s.x as u64 + n1(n) as u64).min(c as u64) as usize;
            for xx in (s.x as usize)..hi {
                s.set_cell(y, xx, er.clone());
            }
            e.alts.push(s);
        }
        InsertLines(n) => {
            if t <= s.y && s.y <= b {
                let k = n1(n).min(b - s.y + 1);
                for _ in 0..k {
                    let y = s.y;
                    scroll_down(&mut s, y, b);
                }
                s.x = 0;
            }
            e.alts.push(s);
        }
        DeleteLines(n) => {
            if t <= s.y && s.y <= b {
                let k = n1(n).min(b - s.y + 1);
                for _ in 0..k {
                    let y = s.y;
                    scroll_up(&mut s, y, b);
                }
                s.x = 0;
            }
            e.alts.push(s);
        }
        DeleteCharacters(n) => {
            dch(&mut s, n1(n));
            e.alts.push(s);
        }
        ClearTabStop(how) => {
            match how.unwrap_or(0) {
                0 => {
                    s.tabstops.remove(&s.x);
                }
                3 => s.tabstops.clear(),
                _ => {}
            }
            e.alts.push(s);
        }
        SetMode(list, private) => set_reset_mode(pre, list, *private, true, &mut e),
        ResetMode(list, private) => set_reset_mode(pre, list, *private, false, &mut e),
        Sgr(list) => {
            s.attr = sgr(&s.attr, list, s.has(DECSCNM));
            e.alts.push(s);
        }
        SetTitle(tt) => {
            s.title = tt.clone();
            e.alts.push(s);
        }
        SetIconName(tt) => {
            s.icon = tt.clone();
            e.alts.push(s);
        }
        SetMargins(top, bottom) => {
            let top0 = top.unwrap_or(0);
            if top0 == 0 && bottom.is_none() {
                s.margins = None;
                e.lenient.push("lenient_csi_r_cursor");
                let mut a = s.clone();
                home(&mut a);
                e.alts.push(s);
                push_unique(&mut e.alts, a);
            } else {
                let conv = |v: u32| -> u32 { (v as i64 - 1).clamp(0, l as i64 - 1) as u32 };
                let tops: Vec<u32> = match top {
                    Some(v) => vec![conv(*v)],
                    None => {
                        if pre.margins.is_some() {
                            e.lenient.push("lenient_stbm_missing_edge");
                        }
                        vec![t, 0]
                    }
                };
                let bottoms: Vec<u32> = match bottom {
                    Some(v) => vec![conv(*v)],
                    None => {
                        if pre.margins.is_some() {
                            e.lenient.push("lenient_stbm_missing_edge");
                        }
                        vec![b, l - 1]
                    }
                };
                for tt in &tops {
                    for bb in &bottoms {
                        let mut a = s.clone();
                        if *bb as i64 - *tt as i64 >= 1 {
                            a.margins = Some((*tt, *bb));
                            home(&mut a);
                        }
                        push_unique(&mut e.alts, a);
                    }
                }
            }
        }
        Resize(nl, nc) => {
            let l2 = nl.unwrap_or(l);
            let c2 = nc.unwrap_or(c);
            if l2 == l && c2 == c {
                e.alts.push(s);
            } else {
                resize_grid(&mut s, l2, c2);
                s.margins = None;
                e.cursor_free = true;
                e.dirty_all = true;
                e.skip.push("tabstops");
                e.tab_limit = Some(c.min(c2));
                e.alts.push(s);
            }
        }
        Esc(_) | Basic(_) | Csi(..) => unreachable!("lowered"),
    }
    e
}

/// Compare a real post-state with the relation. None = admitted.
pub fn judge(e: &Exp, post: &Snapshot) -> Option<String> {
    if e.unchecked {
        if e.dirty_all {
            return dirty_all(post);
        }
        return None;
    }
    let mut first: Option<String> = None;
    let mut skip: Vec<&str> = vec!["dirty"];
    skip.extend(e.skip.iter());
    if let (Some(lim), Some(a)) = (e.tab_limit, e.alts.first()) {
        // stops visible both before and after a width change must survive it
        let want: Vec<u32> = a.tabstops.iter().copied().filter(|t| *t < lim).collect();
        let got: Vec<u32> = post.tabstops.iter().copied().filter(|t| *t < lim).collect();
        if want != got && !e.mode_only {
            return Some(format!("tab stops below column {} changed by a width change: {:?} vs expected {:?}", lim, got, want));
        }
    }
    for a in &e.alts {
        let d = if e.mode_only {
            if a.mode != post.mode {
                Some(format!("mode {:?} vs expected {:?}", post.mode, a.mode))
            } else {
                None
            }
        } else if e.cursor_free {
            let mut a2 = a.clone();
            a2.x = post.x;
            a2.y = post.y;
            if post.y >= post.lines || post.x > post.columns {
                Some(format!(
                    "cursor (x={},y={}) outside the {}x{} screen",
                    post.x, post.y, post.columns, post.lines
                ))
            } else {
                post.diff(&a2, &skip)
            }
        } else {
            post.diff(a, &skip)
        };
        match d {
            None => {
                if e.dirty_all {
                    return dirty_all(post);
                }
                return None;
            }
            Some(d) => {
                if first.is_none() {
                    first = Some(d);
                }
            }
        }
    }
    Some(format!(
        "real vs expected: {}{}",
        first.unwrap_or_else(|| "no admissible outcome".to_owned()),
        if e.alts.len() > 1 { format!(" ({} admitted outcomes, none matched)", e.alts.len()) } else { String::new() }
    ))
}

fn dirty_all(post: &Snapshot) -> Option<String> {
    for y in 0..post.lines {
        if !post.dirty.contains(&y) {
            return Some(format!("row {} not marked dirty after a screen-wide change (dirty = {:?})", y, post.dirty));
        }
    }
    None
}
