//! Independently written explicit-state recogniser for the documented grammar (DESIGN 8.1)
//! and the reference streaming decoder (DESIGN 8.2).

use crate::ops::Op;

#[derive(Clone, Copy, Debug, PartialEq, Eq, Hash)]
pub enum St {
    Ground,
    Esc,
    EscHash,
    EscPct,
    EscDesig,
    Csi,
    CsiDollar,
    OscCode,
    OscSemi,
    OscStr,
    OscStrEsc,
}

#[derive(Clone, Copy, Debug, PartialEq, Eq, Hash)]
pub enum Class {
    Bel,
    Bs,
    Ht,
    Lf,
    Cr,
    So,
    Si,
    Can,
    Esc,
    OtherC0,
    Del,
    Sp,
    Digit,
    Semi,
    Question,
    Dollar,
    Greater,
    Hash,
    Pct,
    Paren,
    LBracket,
    RBracket,
    Backslash,
    OtherIntermediate,
    OtherParamByte,
    Printable,
    C1Csi,
    C1Osc,
    C1St,
    OtherC1,
    NonAscii,
}

pub fn classify(c: char) -> Class {
    use Class::*;
    match c {
        '\x07' => Bel,
        '\x08' => Bs,
        '\x09' => Ht,
        '\x0a' | '\x0b' | '\x0c' => Lf,
        '\x0d' => Cr,
        '\x0e' => So,
        '\x0f' => Si,
        '\x18' | '\x1a' => Can,
        '\x1b' => Esc,
        '\x00'..='\x1f' => OtherC0,
        '\x7f' => Del,
        ' ' => Sp,
        '0'..='9' => Digit,
        ';' => Semi,
        '?' => Question,
        '$' => Dollar,
        '>' => Greater,
        '#' => Hash,
        '%' => Pct,
        '(' | ')' => Paren,
        '[' => LBracket,
        ']' => RBracket,
        '\\' => Backslash,
        '!' | '"' | '&' | '\'' | '*' | '+' | ',' | '-' | '.' | '/' => OtherIntermediate,
        ':' | '<' | '=' => OtherParamByte,
        '\x21'..='\x7e' => Printable,
        '\u{9b}' => C1Csi,
        '\u{9d}' => C1Osc,
        '\u{9c}' => C1St,
        '\u{80}'..='\u{9f}' => OtherC1,
        _ => NonAscii,
    }
}

pub struct Recog {
    pub utf8: bool,
    pub st: St,
    pub events: Vec<Op>,
    /// index of the first character at which the input left the documented grammar
    pub stopped_at: Option<usize>,
    pub stop_reason: &'static str,
    /// (state, class) transitions taken (coverage)
    pub transitions: Vec<(St, Class)>,
    /// per consumed character: was it part of an OSC sequence
    pub osc_mask: Vec<bool>,
    /// character index at which the current OSC started
    pub osc_start: usize,
    pub completed_osc: u32,
    n: usize,
    params: Vec<u32>,
    cur: u32,
    cur_any: bool,
    private: bool,
    csi_first: bool,
    desig: char,
    osc_code: char,
    osc_buf: String,
}

impl Recog {
    pub fn new(utf8: bool) -> Self {
        Recog {
            utf8,
            st: St::Ground,
            events: Vec::new(),
            stopped_at: None,
            stop_reason: "",
            transitions: Vec::new(),
            osc_mask: Vec::new(),
            osc_start: 0,
            completed_osc: 0,
            n: 0,
            params: Vec::new(),
            cur: 0,
            cur_any: false,
            private: false,
            csi_first: true,
            desig: '(',
            osc_code: '0',
            osc_buf: String::new(),
        }
    }

    fn stop(&mut self, why: &'static str) {
        if self.stopped_at.is_none() {
            self.stopped_at = Some(self.n);
            self.stop_reason = why;
        }
    }

    fn text(&mut self, c: char) {
        if let Some(Op::Draw(t)) = self.events.last_mut() {
            t.push(c);
        } else {
            self.events.push(Op::Draw(c.to_string()));
        }
    }

    fn control(&mut self, c: char) -> bool {
        let ev = match c {
            '\x07' => Op::Bell,
            '\x08' => Op::Backspace,
            '\x09' => Op::Tab,
            '\x0a' | '\x0b' | '\x0c' => Op::Linefeed,
            '\x0d' => Op::CarriageReturn,
            _ => return false,
        };
        self.events.push(ev);
        true
    }

    fn start_csi(&mut self) {
        self.st = St::Csi;
        self.params.clear();
        self.cur = 0;
        self.cur_any = false;
        self.private = false;
        self.csi_first = true;
    }

    fn start_osc(&mut self) {
        self.st = St::OscCode;
        self.osc_buf.clear();
    }

    fn finish_osc(&mut self) {
        let p = std::mem::take(&mut self.osc_buf);
        match self.osc_code {
            '0' => {
                self.events.push(Op::SetIconName(p.clone()));
                self.events.push(Op::SetTitle(p));
            }
            '1' => self.events.push(Op::SetIconName(p)),
            '2' => self.events.push(Op::SetTitle(p)),
            _ => {}
        }
        self.completed_osc += 1;
        self.st = St::Ground;
    }

    pub fn feed_str(&mut self, s: &str) {
        for c in s.chars() {
            if self.stopped_at.is_some() {
                return;
            }
            self.feed(c);
            self.n += 1;
        }
    }

    fn feed(&mut self, c: char) {
        use Class::*;
        let cl = classify(c);
        self.transitions.push((self.st, cl));
        let in_osc_before = matches!(self.st, St::OscCode | St::OscSemi | St::OscStr | St::OscStrEsc);
        let nongraphic = matches!(
            cl,
            Bel | Bs | Ht | Lf | Cr | So | Si | Can | Esc | OtherC0 | Del | C1Csi | C1Osc | C1St | OtherC1 | NonAscii
        );
        match self.st {
            St::Ground => match cl {
                Bel | Bs | Ht | Lf | Cr => {
                    self.control(c);
                }
                So => {
                    if !self.utf8 {
                        self.events.push(Op::ShiftOut);
                    }
                }
                Si => {
                    if !self.utf8 {
                        self.events.push(Op::ShiftIn);
                    }
                }
                Esc => {
                    self.st = St::Esc;
                    self.osc_start = self.n;
                }
                C1Csi => self.start_csi(),
                C1Osc => {
                    self.osc_start = self.n;
                    self.start_osc();
                }
                _ => self.text(c),
            },
            St::Esc => match cl {
                LBracket => self.start_csi(),
                RBracket => self.start_osc(),
                Hash => self.st = St::EscHash,
                Pct => self.st = St::EscPct,
                Paren => {
                    self.desig = c;
                    self.st = St::EscDesig;
                }
                Sp | Dollar | OtherIntermediate => self.stop("ESC followed by an intermediate other than # % ( )"),
                _ if nongraphic => self.stop("ESC followed by a control, ESC, DEL, C1 or non-ASCII character"),
                _ => {
                    let ev = Op::Esc(c.to_string()).lower();
                    if ev != Op::Nop {
                        self.events.push(ev);
                    }
                    self.st = St::Ground;
                }
            },
            St::EscHash => {
                if nongraphic {
                    self.stop("ESC # followed by a non-graphic character");
                } else {
                    if c == '8' {
                        self.events.push(Op::AlignmentDisplay);
                    }
                    self.st = St::Ground;
                }
            }
            St::EscPct => {
                if nongraphic {
                    self.stop("ESC % followed by a non-graphic character");
                } else {
                    self.st = St::Ground;
                }
            }
            St::EscDesig => {
                if nongraphic {
                    self.stop("designator followed by a non-graphic character");
                } else {
                    if !self.utf8 {
                        self.events.push(Op::DefineCharset(c.to_string(), self.desig.to_string()));
                    }
                    self.st = St::Ground;
                }
            }
            St::Csi => {
                let first = self.csi_first;
                self.csi_first = false;
                match cl {
                    Question => {
                        if first {
                            self.private = true;
                        } else {
                            self.stop("? not directly after the CSI introducer");
                        }
                    }
                    Digit => {
                        self.cur = (self.cur.saturating_mul(10).saturating_add(c as u32 - '0' as u32)).min(9999);
                        self.cur_any = true;
                    }
                    Semi => {
                        self.params.push(self.cur);
                        self.cur = 0;
                        self.cur_any = false;
                    }
                    Bel | Bs | Ht | Lf | Cr => {
                        self.control(c);
                    }
                    Sp | Greater => {}
                    Can => self.st = St::Ground,
                    Dollar => self.st = St::CsiDollar,
                    OtherParamByte | OtherIntermediate | Hash | Pct | Paren => {
                        self.stop("parameter/intermediate byte outside the documented subset inside CSI")
                    }
                    _ if nongraphic && cl != NonAscii => {
                        self.stop("ESC, NUL, DEL, SO/SI, other C0 or C1 inside CSI")
                    }
                    // everything else - including a non-ASCII character, which the documented
                    // grammar does not list among the characters handled inside a CSI - is the
                    // final: unknown finals are consumed without effect
                    _ => {
                        self.params.push(self.cur);
                        let ev = Op::Csi(c.to_string(), self.params.clone(), self.private).lower();
                        if ev != Op::Nop {
                            self.events.push(ev);
                        }
                        self.st = St::Ground;
                    }
                }
            }
            St::CsiDollar => {
                if nongraphic {
                    self.stop("control after CSI ... $");
                } else {
                    self.st = St::Ground;
                }
            }
            St::OscCode => {
                if nongraphic || cl == Semi || cl == Backslash {
                    self.stop("OSC code is not a graphic character");
                } else if c == 'P' || c == 'R' || c == 'p' {
                    self.stop("OSC P / R / p (Linux palette forms)");
                } else {
                    self.osc_code = c;
                    self.st = St::OscSemi;
                }
            }
            St::OscSemi => {
                if cl == Semi {
                    self.st = St::OscStr;
                } else {
                    self.stop("OSC code longer than one character, or terminated before any ;");
                }
            }
            St::OscStr => match cl {
                Bel | C1St => self.finish_osc(),
                Esc => self.st = St::OscStrEsc,
                Can => self.stop("CAN/SUB inside an OSC string"),
                _ => self.osc_buf.push(c),
            },
            St::OscStrEsc => match cl {
                Backslash => self.finish_osc(),
                Esc => self.stop("ESC ESC inside an OSC string"),
                Can => self.stop("CAN/SUB inside an OSC string"),
                _ => {
                    self.osc_buf.push('\x1b');
                    self.osc_buf.push(c);
                    self.st = St::OscStr;
                }
            },
        }
        if self.stopped_at.is_some() {
            return;
        }
        let in_osc_after = matches!(self.st, St::OscCode | St::OscSemi | St::OscStr | St::OscStrEsc);
        // ESC that turned out to introduce an OSC belongs to it
        if in_osc_after && !in_osc_before && cl == RBracket && self.osc_mask.last().is_some() {
            if let Some(l) = self.osc_mask.last_mut() {
                *l = true;
            }
        }
        self.osc_mask.push(in_osc_before || in_osc_after);
    }
}

/// Normal form of an event list (both sides): adjacent text merged, CAN/SUB removed from text,
/// Some(0) == None, zeros dropped from SM/RM lists, empty text dropped.
pub fn normalise(events: &[Op]) -> Vec<Op> {
    let mut out: Vec<Op> = Vec::new();
    for e in events {
        match e {
            Op::Draw(t) => {
                let t: String = t.chars().filter(|c| *c != '\x18' && *c != '\x1a').collect();
                if t.is_empty() {
                    continue;
                }
                if let Some(Op::Draw(prev)) = out.last_mut() {
                    prev.push_str(&t);
                } else {
                    out.push(Op::Draw(t));
                }
            }
            Op::Nop => {}
            other => out.push(other.normal()),
        }
    }
    out
}

/// Reference streaming UTF-8 decoder (std's validator driven incrementally).
#[derive(Default)]
pub struct RefDecoder {
    pub pending: Vec<u8>,
}

impl RefDecoder {
    /// decode `data` appended to the pending tail; an incomplete trailing sequence is withheld
    pub fn feed(&mut self, data: &[u8]) -> String {
        let mut bytes = std::mem::take(&mut self.pending);
        bytes.extend_from_slice(data);
        let mut out = String::new();
        let mut rest: &[u8] = &bytes;
        loop {
            match std::str::from_utf8(rest) {
                Ok(s) => {
                    out.push_str(s);
                    rest = &[];
                    break;
                }
                Err(e) => {
                    let (good, bad) = rest.split_at(e.valid_up_to());
                    out.push_str(std::str::from_utf8(good).unwrap());
                    match e.error_len() {
                        Some(n) => {
                            out.push('\u{fffd}');
                            rest = &bad[n..];
                        }
                        None => {
                            rest = bad;
                            break;
                        }
                    }
                }
            }
        }
        self.pending = rest.to_vec();
        out
    }
}
