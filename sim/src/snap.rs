//! Observation layer: an abstraction of `Screen` taken from its public fields, never through
//! display() (which takes &mut self). Absent rows/cells read as the current blank; anything
//! stored outside the visible rectangle is not part of the abstraction (only counted).

use std::collections::BTreeSet;
use std::rc::Rc;

use memterm::modes::DECSCNM;
use memterm::screen::{CharOpts, Charset, Screen};

use crate::prng::splitmix;

pub type Cell = CharOpts;

#[derive(Clone, Debug, PartialEq)]
pub struct SaveSnap {
    pub x: u32,
    pub y: u32,
    pub attr: Cell,
    pub hidden: bool,
    pub g0: [char; 256],
    pub g1: [char; 256],
    pub charset: u8,
    pub origin: bool,
    pub wrap: bool,
}

#[derive(Clone, Debug, PartialEq)]
pub struct Snapshot {
    pub lines: u32,
    pub columns: u32,
    /// rows are shared between successive snapshots when unchanged (cheap clone, cheap diff)
    pub grid: Vec<Rc<Vec<Cell>>>,
    pub x: u32,
    pub y: u32,
    pub attr: Cell,
    pub hidden: bool,
    pub mode: BTreeSet<u32>,
    pub margins: Option<(u32, u32)>,
    pub tabstops: BTreeSet<u32>,
    pub title: String,
    pub icon: String,
    pub charset: u8,
    pub g0: [char; 256],
    pub g1: [char; 256],
    pub savepoints: Vec<SaveSnap>,
    pub dirty: BTreeSet<u32>,
    pub saved_columns: Option<u32>,
    /// probe only: cells stored at x >= columns or y >= lines
    pub hidden_cells: usize,
    /// probe only: rows of the visible area that are absent from the map
    pub absent_rows: usize,
}

pub fn blank_of(reverse: bool) -> Cell {
    Cell {
        data: " ".to_owned(),
        fg: "default".to_owned(),
        bg: "default".to_owned(),
        bold: false,
        italics: false,
        underscore: false,
        strikethrough: false,
        reverse,
        blink: false,
    }
}

fn cs(c: Charset) -> u8 {
    match c {
        Charset::G0 => 0,
        Charset::G1 => 1,
    }
}

impl Snapshot {
    pub fn take(s: &Screen) -> Snapshot {
        Snapshot::take_from(s, None)
    }

    /// Like take(), but rows equal to the corresponding row of `prev` share its allocation.
    pub fn take_from(s: &Screen, prev: Option<&Snapshot>) -> Snapshot {
        let blank = blank_of(s.mode.contains(&DECSCNM));
        let mut grid: Vec<Rc<Vec<Cell>>> = Vec::with_capacity(s.lines as usize);
        let mut absent_rows = 0;
        let cols = s.columns as usize;
        for y in 0..s.lines {
            let line = s.buffer.get(&y);
            if line.is_none() {
                absent_rows += 1;
            }
            let cell_at = |x: u32| -> &Cell {
                match line.and_then(|l| l.get(&x)) {
                    Some(c) => c,
                    None => &blank,
                }
            };
            // reuse the previous row when it is identical
            if let Some(p) = prev {
                if let Some(prow) = p.grid.get(y as usize) {
                    if prow.len() == cols && (0..s.columns).all(|x| &prow[x as usize] == cell_at(x)) {
                        grid.push(Rc::clone(prow));
                        continue;
                    }
                }
            }
            let mut row = Vec::with_capacity(cols);
            for x in 0..s.columns {
                row.push(cell_at(x).clone());
            }
            grid.push(Rc::new(row));
        }
        let mut hidden_cells = 0;
        for (y, line) in s.buffer.iter() {
            if *y >= s.lines {
                hidden_cells += line.len();
            } else {
                hidden_cells += line.keys().filter(|x| **x >= s.columns).count();
            }
        }
        Snapshot {
            lines: s.lines,
            columns: s.columns,
            grid,
            x: s.cursor.x,
            y: s.cursor.y,
            attr: s.cursor.attr.clone(),
            hidden: s.cursor.hidden,
            mode: s.mode.iter().copied().filter(|m| *m != 0).collect(),
            margins: s.margins.map(|m| (m.top, m.bottom)),
            tabstops: s.tabstops.iter().copied().collect(),
            title: s.title.clone(),
            icon: s.icon_name.clone(),
            charset: cs(s.charset),
            g0: s.g0_charset,
            g1: s.g1_charset,
            savepoints: s
                .savepoints
                .iter()
                .map(|p| SaveSnap {
                    x: p.cursor.x,
                    y: p.cursor.y,
                    attr: p.cursor.attr.clone(),
                    hidden: p.cursor.hidden,
                    g0: p.g0_charset,
                    g1: p.g1_charset,
                    charset: cs(p.charset),
                    origin: p.origin,
                    wrap: p.wrap,
                })
                .collect(),
            dirty: s.dirty.iter().copied().collect(),
            saved_columns: s.saved_columns,
            hidden_cells,
            absent_rows,
        }
    }

    pub fn blank(&self) -> Cell {
        blank_of(self.mode.contains(&DECSCNM))
    }

    pub fn row_mut(&mut self, y: usize) -> &mut Vec<Cell> {
        Rc::make_mut(&mut self.grid[y])
    }

    pub fn set_cell(&mut self, y: usize, x: usize, c: Cell) {
        Rc::make_mut(&mut self.grid[y])[x] = c;
    }

    pub fn has(&self, mode: u32) -> bool {
        self.mode.contains(&mode)
    }

    /// region (top, bottom): margins or the whole screen
    pub fn region(&self) -> (u32, u32) {
        self.margins.unwrap_or((0, self.lines.saturating_sub(1)))
    }

    /// the rendering display() must produce for this grid (DESIGN 8.3 DISPLAY); `strict_skip`
    /// tells whether the cell after a wide lead is skipped even when it is not a placeholder
    pub fn render(&self, skip_non_placeholder: bool) -> Vec<String> {
        use unicode_width::UnicodeWidthChar;
        let mut out = Vec::new();
        for row in &self.grid {
            let row: &Vec<Cell> = row;
            let mut s = String::new();
            let mut x = 0usize;
            while x < row.len() {
                let d = &row[x].data;
                s.push_str(d);
                let wide = d.chars().next().map(|c| c.width() == Some(2)).unwrap_or(false);
                if wide && x + 1 < row.len() && (skip_non_placeholder || row[x + 1].data.is_empty()) {
                    x += 2;
                } else {
                    x += 1;
                }
            }
            out.push(s);
        }
        out
    }

    /// 64-bit hash of the abstract state (dirty and probes excluded)
    pub fn hash(&self) -> u64 {
        let mut h: u64 = 0x1234_5678_9abc_def0;
        let mut mix = |v: u64| {
            h ^= v;
            let mut t = h;
            h = splitmix(&mut t);
        };
        mix(self.lines as u64);
        mix(self.columns as u64);
        for row in &self.grid {
            for c in row.iter() {
                mix(cell_hash(c));
            }
        }
        mix(self.x as u64);
        mix(self.y as u64);
        mix(cell_hash(&self.attr));
        mix(self.hidden as u64);
        for m in &self.mode {
            mix(*m as u64 + 1);
        }
        if let Some((t, b)) = self.margins {
            mix(((t as u64) << 32) | b as u64);
        }
        for t in &self.tabstops {
            mix(*t as u64 + 7);
        }
        mix(crate::prng::hash_str(&self.title));
        mix(crate::prng::hash_str(&self.icon));
        mix(self.charset as u64);
        mix(self.g0.iter().fold(0u64, |a, c| a.wrapping_mul(31).wrapping_add(*c as u64)));
        mix(self.g1.iter().fold(0u64, |a, c| a.wrapping_mul(31).wrapping_add(*c as u64)));
        mix(self.savepoints.len() as u64);
        h
    }

    /// Human-readable first difference between two snapshots, ignoring the components
    /// named in `skip` ("dirty", "savepoints", "tabstops", "saved_columns").
    pub fn diff(&self, other: &Snapshot, skip: &[&str]) -> Option<String> {
        if self.lines != other.lines || self.columns != other.columns {
            return Some(format!(
                "size {}x{} vs {}x{} (lines x columns)",
                self.lines, self.columns, other.lines, other.columns
            ));
        }
        for y in 0..self.grid.len() {
            if Rc::ptr_eq(&self.grid[y], &other.grid[y]) {
                continue;
            }
            for x in 0..self.grid[y].len() {
                if self.grid[y][x] != other.grid[y][x] {
                    return Some(format!(
                        "cell(y={},x={}) {} vs {}",
                        y,
                        x,
                        cell_str(&self.grid[y][x]),
                        cell_str(&other.grid[y][x])
                    ));
                }
            }
        }
        if (self.x, self.y) != (other.x, other.y) {
            return Some(format!("cursor (x={},y={}) vs (x={},y={})", self.x, self.y, other.x, other.y));
        }
        if self.attr != other.attr {
            return Some(format!("rendition {} vs {}", cell_str(&self.attr), cell_str(&other.attr)));
        }
        if self.hidden != other.hidden {
            return Some(format!("cursor.hidden {} vs {}", self.hidden, other.hidden));
        }
        if self.mode != other.mode {
            return Some(format!("mode {:?} vs {:?}", self.mode, other.mode));
        }
        if self.margins != other.margins {
            return Some(format!("margins {:?} vs {:?}", self.margins, other.margins));
        }
        if !skip.contains(&"tabstops") {
            let a: Vec<_> = self.tabstops.iter().filter(|t| **t < self.columns).collect();
            let b: Vec<_> = other.tabstops.iter().filter(|t| **t < other.columns).collect();
            if a != b {
                return Some(format!("tabstops {:?} vs {:?}", a, b));
            }
        }
        if self.title != other.title {
            return Some(format!("title {:?} vs {:?}", self.title, other.title));
        }
        if self.icon != other.icon {
            return Some(format!("icon_name {:?} vs {:?}", self.icon, other.icon));
        }
        if self.charset != other.charset {
            return Some(format!("charset G{} vs G{}", self.charset, other.charset));
        }
        if self.g0 != other.g0 {
            return Some("g0 table differs".to_owned());
        }
        if self.g1 != other.g1 {
            return Some("g1 table differs".to_owned());
        }
        if !skip.contains(&"savepoints") {
            if self.savepoints.len() != other.savepoints.len() {
                return Some(format!(
                    "savepoint depth {} vs {}",
                    self.savepoints.len(),
                    other.savepoints.len()
                ));
            }
            if !skip.contains(&"savepoint_contents") && self.savepoints != other.savepoints {
                return Some("savepoint contents differ".to_owned());
            }
        }
        if !skip.contains(&"dirty") && self.dirty != other.dirty {
            return Some(format!("dirty {:?} vs {:?}", self.dirty, other.dirty));
        }
        if !skip.contains(&"saved_columns") && self.saved_columns != other.saved_columns {
            return Some(format!("saved_columns {:?} vs {:?}", self.saved_columns, other.saved_columns));
        }
        None
    }
}

pub fn cell_hash(c: &Cell) -> u64 {
    let mut h = crate::prng::hash_str(&c.data);
    h = h.rotate_left(5) ^ crate::prng::hash_str(&c.fg);
    h = h.rotate_left(5) ^ crate::prng::hash_str(&c.bg).rotate_left(13);
    h ^ ((c.bold as u64)
        | (c.italics as u64) << 1
        | (c.underscore as u64) << 2
        | (c.strikethrough as u64) << 3
        | (c.reverse as u64) << 4
        | (c.blink as u64) << 5)
}

pub fn cell_str(c: &Cell) -> String {
    let mut f = String::new();
    for (on, ch) in [
        (c.bold, 'B'),
        (c.italics, 'I'),
        (c.underscore, 'U'),
        (c.strikethrough, 'S'),
        (c.reverse, 'R'),
        (c.blink, 'K'),
    ] {
        if on {
            f.push(ch);
        }
    }
    format!("{:?}[{}/{}{}{}]", c.data, c.fg, c.bg, if f.is_empty() { "" } else { " " }, f)
}

/// Deep copy of a Screen built from its public fields (Screen is not Clone). Used so that
/// oracles can call display() or twin operations without perturbing the run.
pub fn clone_screen(s: &Screen) -> Screen {
    // Built with Screen::new + field assignment (no struct literals for Screen or Savepoint), so
    // that a private field added by a later change does not break the harness build. The
    // savepoint stack is rebuilt through save_cursor() from states equal to the saved ones.
    use memterm::modes::{DECAWM, DECOM};
    use memterm::parser_listener::ParserListener;
    let mut c = Screen::new(s.columns, s.lines);
    c.columns = s.columns;
    c.lines = s.lines;
    for p in &s.savepoints {
        c.cursor = p.cursor.clone();
        c.g0_charset = p.g0_charset;
        c.g1_charset = p.g1_charset;
        c.charset = p.charset;
        if p.origin {
            c.mode.insert(DECOM);
        } else {
            c.mode.remove(&DECOM);
        }
        if p.wrap {
            c.mode.insert(DECAWM);
        } else {
            c.mode.remove(&DECAWM);
        }
        c.save_cursor();
    }
    c.dirty = s.dirty.clone();
    c.margins = s.margins;
    c.buffer = s.buffer.clone();
    c.mode = s.mode.clone();
    c.title = s.title.clone();
    c.icon_name = s.icon_name.clone();
    c.charset = s.charset;
    c.g0_charset = s.g0_charset;
    c.g1_charset = s.g1_charset;
    c.tabstops = s.tabstops.clone();
    c.cursor = s.cursor.clone();
    c.saved_columns = s.saved_columns;
    c
}
