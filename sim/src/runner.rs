//! Parent/worker process structure (DESIGN 2.3), violation reporting, known findings, evidence.

use std::collections::{BTreeMap, HashSet};
use std::io::{BufRead, BufReader, Write};
use std::os::unix::io::FromRawFd;
use std::os::unix::process::ExitStatusExt;
use std::path::PathBuf;
use std::process::{Command, Stdio};
use std::sync::mpsc;
use std::time::{Duration, Instant};

use serde::{Deserialize, Serialize};

use crate::cov::Coverage;
use crate::exec;
use crate::props::{self, check_guarded, Outcome, Property, Tier};
use crate::shrink;
use crate::trace::{Trace, Violation};

pub const VERIF_DIR: &str = "/verif";
/// a worker that starts no new run for this long is killed; whether that was a real hang is
/// decided by re-executing the run in isolation (a loaded machine can make a heavy run slow)
const WATCHDOG_S: u64 = 30;
const ISOLATED_TIMEOUT_S: u64 = 45;

static OUT: std::sync::Mutex<Option<std::fs::File>> = std::sync::Mutex::new(None);

/// Keep a private copy of the real stdout for our own reports and point fd 1 at /dev/null:
/// the library println!s on unknown sequences and must not pollute the report channel.
pub fn silence_stdout() {
    let mut g = OUT.lock().unwrap();
    if g.is_some() {
        return;
    }
    let report_fd = unsafe { libc::dup(1) };
    unsafe {
        let devnull = libc::open(b"/dev/null\0".as_ptr() as *const libc::c_char, libc::O_WRONLY);
        libc::dup2(devnull, 1);
        libc::close(devnull);
    }
    *g = Some(unsafe { std::fs::File::from_raw_fd(report_fd) });
}

pub fn out(line: &str) {
    let mut g = OUT.lock().unwrap();
    match g.as_mut() {
        Some(f) => {
            let _ = f.write_all(line.as_bytes());
            let _ = f.write_all(b"\n");
        }
        None => println!("{}", line),
    }
}

#[derive(Serialize, Deserialize, Clone)]
pub struct ReplayFile {
    pub property: String,
    pub class: String,
    pub detail: String,
    pub minimised: bool,
    pub trace: Trace,
    /// runs executed in the same process before `trace` (only present when the violation depends
    /// on what an earlier, unrelated terminal did in the process: state kept outside the screen)
    #[serde(default, skip_serializing_if = "Vec::is_empty")]
    pub prelude: Vec<Trace>,
}

#[derive(Serialize, Deserialize)]
struct WorkerResult {
    runs: u64,
    foreign: u64,
    foreign_samples: Vec<String>,
    harness_errors: Vec<String>,
    cov: Coverage,
    violations: Vec<(Violation, Trace)>,
    sigs_file: String,
}

fn env_u64(k: &str) -> Option<u64> {
    std::env::var(k).ok().and_then(|v| v.parse().ok())
}

pub fn seed_from_env() -> u64 {
    env_u64("VERIF_SEED").unwrap_or(1)
}

fn tmp_dir() -> PathBuf {
    let p = PathBuf::from(VERIF_DIR).join("sim/target/tmp");
    let _ = std::fs::create_dir_all(&p);
    p
}

// ----------------------------------------------------------------------------------- worker

/// argv: worker <prop> <tier> <seed> <start> <stride> <total> <budget_s>
pub fn worker_main(args: &[String]) -> i32 {
    let prop = props::by_id(&args[0]).expect("unknown property");
    let tier = if args[1] == "thorough" { Tier::Thorough } else { Tier::Quick };
    let seed: u64 = args[2].parse().unwrap();
    let start: u64 = args[3].parse().unwrap();
    let stride: u64 = args[4].parse().unwrap();
    let total: u64 = args[5].parse().unwrap();
    let budget_s: u64 = args[6].parse().unwrap();
    crate::gen::set_deep(tier == Tier::Thorough);

    silence_stdout();
    exec::install_panic_hook();

    let t0 = Instant::now();
    let mut cov = Coverage::default();
    let mut res = WorkerResult {
        runs: 0,
        foreign: 0,
        foreign_samples: vec![],
        harness_errors: vec![],
        cov: Coverage::default(),
        violations: vec![],
        sigs_file: String::new(),
    };
    let mut classes_seen: BTreeMap<String, u32> = BTreeMap::new();
    let mut i = start;
    while i < total {
        if t0.elapsed().as_secs() >= budget_s {
            break;
        }
        out(&format!("S {}", i));
        let trace = prop.generate(seed, i, tier);
        let sig = crate::prng::hash_bytes(
            trace.columns as u64 * 1000 + trace.lines as u64,
            serde_json::to_string(&(&trace.steps, &trace.extra, trace.utf8, trace.front, trace.wiring))
                .unwrap()
                .as_bytes(),
        );
        let nontrivial = trace.steps.iter().any(|s| match s {
            crate::trace::Step::Feed(b) => !b.is_empty(),
            crate::trace::Step::Apply(_) | crate::trace::Step::Charset(_) => false,
            _ => true,
        });
        for (k, n) in &trace.faults {
            cov.add(&format!("fault_{}", k), *n as u64);
        }
        if trace.faults.iter().any(|(k, _)| !k.starts_with("cut") && k != "empty_read") {
            cov.hit("runs_with_corruption");
        } else if trace.faults.is_empty() {
            cov.hit("runs_fault_free");
        } else {
            cov.hit("runs_fragmentation_only");
        }
        cov.hit(&format!("kind_{}", trace.kind));
        if cov.samples.len() < 3 && nontrivial && (i / stride) % 7 == 3 {
            cov.samples.push(trace.summary());
        }
        cov.nontrivial = None;
        let outcome = check_guarded(prop.as_ref(), &trace, &mut cov);
        // distinct AND non-trivial by the property's own rule (falls back to "has a non-empty step")
        if cov.nontrivial.take().unwrap_or(nontrivial) {
            cov.run_sigs.insert(sig);
            cov.hit("runs_nontrivial");
        }
        match outcome {
            Outcome::Held => {}
            Outcome::Violated(v) => {
                let n = classes_seen.entry(v.class.clone()).or_insert(0);
                *n += 1;
                if *n <= 2 && res.violations.len() < 24 {
                    res.violations.push((v, trace));
                }
                cov.hit("violating_runs");
            }
            Outcome::Foreign(msg) => {
                if msg.starts_with("HARNESS") {
                    if res.harness_errors.len() < 5 {
                        res.harness_errors.push(format!("index {}: {}", i, msg));
                    }
                } else {
                    res.foreign += 1;
                    if res.foreign_samples.len() < 5 {
                        res.foreign_samples.push(format!("index {}: {}", i, msg));
                    }
                }
            }
        }
        res.runs += 1;
        i += stride;
    }
    // side file with the exact run signatures
    let sigs_path = tmp_dir().join(format!("{}.{}.{}.hashes", args[0], std::process::id(), start));
    {
        let mut f = std::fs::File::create(&sigs_path).expect("sigs file");
        let mut buf = Vec::with_capacity(cov.run_sigs.len() * 8);
        for s in &cov.run_sigs {
            buf.extend_from_slice(&s.to_le_bytes());
        }
        f.write_all(&buf).unwrap();
    }
    res.sigs_file = sigs_path.to_string_lossy().into_owned();
    res.cov = cov;
    out(&format!("R {}", serde_json::to_string(&res).unwrap()));
    0
}

// ----------------------------------------------------------------------------------- parent

enum Msg {
    Start(usize, u64),
    Result(usize, Box<WorkerResult>),
    Eof(usize),
}

struct Slot {
    child: std::process::Child,
    last_index: Option<u64>,
    last_time: Instant,
    done: bool,
    got_result: bool,
    start: u64,
}

fn spawn_worker(
    slot: usize,
    prop: &str,
    tier: Tier,
    seed: u64,
    start: u64,
    stride: u64,
    total: u64,
    budget_s: u64,
    tx: mpsc::Sender<Msg>,
) -> Slot {
    let exe = std::env::current_exe().expect("current_exe");
    let mut child = Command::new(exe)
        .arg("worker")
        .arg(prop)
        .arg(tier.name())
        .arg(seed.to_string())
        .arg(start.to_string())
        .arg(stride.to_string())
        .arg(total.to_string())
        .arg(budget_s.to_string())
        .stdin(Stdio::null())
        .stdout(Stdio::piped())
        .stderr(Stdio::inherit())
        .spawn()
        .expect("spawn worker");
    let out = child.stdout.take().unwrap();
    std::thread::spawn(move || {
        let rd = BufReader::new(out);
        for line in rd.lines() {
            let Ok(line) = line else { break };
            if let Some(rest) = line.strip_prefix("S ") {
                if let Ok(i) = rest.trim().parse::<u64>() {
                    let _ = tx.send(Msg::Start(slot, i));
                }
            } else if let Some(rest) = line.strip_prefix("R ") {
                match serde_json::from_str::<WorkerResult>(rest) {
                    Ok(r) => {
                        let _ = tx.send(Msg::Result(slot, Box::new(r)));
                    }
                    Err(e) => eprintln!("memsim: cannot parse worker result: {}", e),
                }
            }
        }
        let _ = tx.send(Msg::Eof(slot));
    });
    Slot { child, last_index: None, last_time: Instant::now(), done: false, got_result: false, start }
}

#[derive(Deserialize)]
struct KnownFinding {
    property: String,
    /// "known" suppresses (prints KNOWN-FINDING); "fixed" suppresses nothing
    status: String,
    /// violation class prefix this finding is identified by
    class: String,
    /// optional substring that must occur in the violation detail
    #[serde(default)]
    detail_contains: Option<String>,
    what: String,
    #[serde(default)]
    #[allow(dead_code)]
    commit: Option<String>,
}

fn load_known() -> Vec<KnownFinding> {
    let p = PathBuf::from(VERIF_DIR).join("known_findings.json");
    match std::fs::read_to_string(&p) {
        Ok(s) => match serde_json::from_str::<serde_json::Value>(&s) {
            Ok(v) => v
                .get("findings")
                .and_then(|f| serde_json::from_value::<Vec<KnownFinding>>(f.clone()).ok())
                .unwrap_or_default(),
            Err(_) => vec![],
        },
        Err(_) => vec![],
    }
}

/// Run a trace in a fresh child process: Some(class) if it violates, None if it holds.
/// A child killed by a signal or timing out yields the pseudo classes abort/hang.
pub fn run_isolated(prop: &str, trace: &Trace) -> Result<Option<String>, String> {
    run_isolated_after(prop, trace, &[])
}

/// Like run_isolated, but the fresh process first executes `prelude` (outcomes ignored).
pub fn run_isolated_after(prop: &str, trace: &Trace, prelude: &[Trace]) -> Result<Option<String>, String> {
    let dir = tmp_dir();
    let path = dir.join(format!("cand.{}.{:x}.json", std::process::id(), crate::prng::hash_str(&trace.to_json())));
    let rf = ReplayFile {
        property: prop.to_owned(),
        class: String::new(),
        detail: String::new(),
        minimised: false,
        trace: trace.clone(),
        prelude: prelude.to_vec(),
    };
    std::fs::write(&path, serde_json::to_string(&rf).unwrap()).map_err(|e| e.to_string())?;
    let exe = std::env::current_exe().map_err(|e| e.to_string())?;
    let mut child = Command::new(exe)
        .arg("replay")
        .arg(&path)
        .arg("--machine")
        .stdin(Stdio::null())
        .stdout(Stdio::piped())
        .stderr(Stdio::null())
        .spawn()
        .map_err(|e| e.to_string())?;
    let t0 = Instant::now();
    let status = loop {
        match child.try_wait() {
            Ok(Some(st)) => break Some(st),
            Ok(None) => {
                if t0.elapsed() > Duration::from_secs(ISOLATED_TIMEOUT_S) {
                    let _ = child.kill();
                    let _ = child.wait();
                    break None;
                }
                std::thread::sleep(Duration::from_millis(2));
            }
            Err(e) => return Err(e.to_string()),
        }
    };
    let mut out = String::new();
    if let Some(mut so) = child.stdout.take() {
        use std::io::Read;
        let _ = so.read_to_string(&mut out);
    }
    let _ = std::fs::remove_file(&path);
    match status {
        None => Ok(Some(format!("{}/hang", prop))),
        Some(st) => {
            if let Some(sig) = st.signal() {
                return Ok(Some(format!("{}/abort/signal{}", prop, sig)));
            }
            match st.code() {
                Some(0) => Ok(None),
                Some(1) => {
                    let class = out
                        .lines()
                        .rev()
                        .find_map(|l| l.strip_prefix("CLASS ").map(|s| s.trim().to_owned()))
                        .unwrap_or_else(|| "?".to_owned());
                    Ok(Some(class))
                }
                other => Err(format!("replay child exit {:?}: {}", other, out)),
            }
        }
    }
}

fn is_fatal_class(class: &str) -> bool {
    class.contains("/abort/") || class.ends_with("/hang")
}

/// minimise, write the replay file, verify it reproduces in a fresh process
fn report_violation(
    prop: &dyn Property,
    v: &Violation,
    trace: &Trace,
    seed: u64,
    opts: &CheckOpts,
) -> Result<(PathBuf, Violation), String> {
    let pid = prop.id().to_owned();
    let start_trace = match &v.concrete {
        Some(t) => (**t).clone(),
        None => trace.clone(),
    };
    let class = v.class.clone();
    let fatal = is_fatal_class(&class);
    let mut detail = v.detail.clone();
    let mut scratch = Coverage::default();
    let mut test = |t: &Trace| -> bool {
        if fatal {
            matches!(run_isolated(&pid, t), Ok(Some(c)) if c == class)
        } else {
            match check_guarded(prop, t, &mut scratch) {
                Outcome::Violated(v2) => v2.class == class,
                _ => false,
            }
        }
    };
    // a worker killed by the watchdog (or found dead) is only a suspicion: the run must fail the
    // same way when executed alone, otherwise it was merely slow on a loaded machine
    if fatal && !test(&start_trace) {
        return Err(format!("SPURIOUS {} at run index {} did not reproduce in isolation", class, trace.index));
    }
    // A non-fatal violation that does not reproduce when its run is executed alone in a fresh
    // process depends on something an EARLIER run left behind in the worker process - state the
    // library keeps outside its objects (a static, a thread-local). That is a violation in its own
    // right (one terminal's behaviour depends on what another one did); its witness is the run
    // together with its predecessors in that worker.
    if !fatal {
        let alone = run_isolated(&pid, &start_trace);
        if !matches!(&alone, Ok(Some(c)) if *c == class) {
            let stride = opts.workers.max(1) as u64;
            for n in [1u64, 2, 4, 8, 16, 32] {
                let mut prelude: Vec<Trace> = Vec::new();
                for k in (1..=n).rev() {
                    if trace.index >= k * stride {
                        prelude.push(prop.generate(seed, trace.index - k * stride, opts.tier));
                    }
                }
                if prelude.is_empty() {
                    break;
                }
                if matches!(run_isolated_after(&pid, &start_trace, &prelude), Ok(Some(c)) if c == class) {
                    let dir = PathBuf::from(VERIF_DIR).join("replays").join(prop.id());
                    std::fs::create_dir_all(&dir).map_err(|e| e.to_string())?;
                    let tag = crate::prng::hash_str(&class) & 0xffff;
                    let path = dir.join(format!("{}-{}-{:04x}.json", seed, trace.index, tag));
                    let detail2 = format!(
                        "{} -- NOTE: this only happens after {} earlier run(s) in the same process (listed as `prelude` in the replay file); executed alone the run holds: the library keeps state outside the screen/parser objects",
                        v.detail,
                        prelude.len()
                    );
                    let rf = ReplayFile {
                        property: prop.id().to_owned(),
                        class: class.clone(),
                        detail: detail2.clone(),
                        minimised: false,
                        trace: start_trace.clone(),
                        prelude,
                    };
                    std::fs::write(&path, serde_json::to_string_pretty(&rf).unwrap()).map_err(|e| e.to_string())?;
                    let mut v2 = v.clone();
                    v2.detail = detail2;
                    v2.concrete = None;
                    return Ok((path, v2));
                }
            }
            return Err(format!(
                "violation {} at run index {} reproduces neither alone nor after up to 32 predecessor runs",
                class, trace.index
            ));
        }
    }
    // the concrete trace must itself fail (it may have been produced by enumeration)
    let base = if fatal || test(&start_trace) { start_trace } else { trace.clone() };
    let mut budget = shrink::Budget::new(if fatal { 300 } else { 2000 }, 60);
    let unshrunk = base.clone();
    let mut min = shrink::shrink(base, &mut test, &mut budget);
    // Candidates of non-fatal classes are executed in this process; if the library keeps state
    // outside its objects, earlier candidates can make a later one fail. The minimised witness must
    // therefore fail alone in a fresh process; if it does not, the unshrunk run (which does) is
    // the witness.
    let mut minimised = true;
    if !fatal && !matches!(run_isolated(&pid, &min), Ok(Some(c)) if c == class) {
        min = unshrunk;
        minimised = false;
        detail = format!(
            "{} -- NOTE: not minimised: shrinking candidates influenced each other inside one process, i.e. the library keeps state outside the screen/parser objects",
            v.detail
        );
    }
    // refresh the detail text from the minimised trace
    if !fatal && minimised {
        if let Outcome::Violated(v2) = check_guarded(prop, &min, &mut scratch) {
            if v2.class == class {
                detail = v2.detail;
            }
        }
    }
    let dir = PathBuf::from(VERIF_DIR).join("replays").join(prop.id());
    std::fs::create_dir_all(&dir).map_err(|e| e.to_string())?;
    let tag = crate::prng::hash_str(&class) & 0xffff;
    let path = dir.join(format!("{}-{}-{:04x}.json", seed, trace.index, tag));
    let rf = ReplayFile {
        property: prop.id().to_owned(),
        class: class.clone(),
        detail: detail.clone(),
        minimised,
        trace: min.clone(),
        prelude: vec![],
    };
    std::fs::write(&path, serde_json::to_string_pretty(&rf).unwrap()).map_err(|e| e.to_string())?;
    // replay in a fresh process: must reproduce the same class
    match run_isolated(prop.id(), &min) {
        Ok(Some(c)) if c == class => {}
        other => {
            return Err(format!(
                "replay of minimised trace {} did not reproduce class {} (got {:?})",
                path.display(),
                class,
                other
            ))
        }
    }
    let mut v2 = v.clone();
    v2.detail = detail;
    v2.concrete = None;
    Ok((path, v2))
}

pub struct CheckOpts {
    pub tier: Tier,
    pub seed: u64,
    pub workers: usize,
    pub runs: Option<u64>,
    pub budget_s: Option<u64>,
    pub write_evidence: bool,
}

pub struct Batch {
    pub cov: Coverage,
    pub runs_done: u64,
    pub foreign: u64,
    pub foreign_samples: Vec<String>,
    pub harness_errors: Vec<String>,
    pub violations: Vec<(Violation, Trace)>,
    pub sigs: HashSet<u64>,
}

pub fn check_main(prop_id: &str, opts: &CheckOpts) -> i32 {
    let Some(prop) = props::by_id(prop_id) else {
        eprintln!("memsim: unknown property {}", prop_id);
        return 2;
    };
    silence_stdout();
    exec::install_panic_hook();
    let t0 = Instant::now();
    let b = run_batch(prop.as_ref(), prop_id, opts);
    report_batch(prop.as_ref(), prop_id, opts, b, t0)
}

pub fn run_batch(prop: &dyn Property, prop_id: &str, opts: &CheckOpts) -> Batch {
    let t0 = Instant::now();
    crate::gen::set_deep(opts.tier == Tier::Thorough);
    let total = opts.runs.or_else(|| env_u64("VERIF_RUNS")).unwrap_or_else(|| prop.runs(opts.tier));
    let budget_s = opts
        .budget_s
        .or_else(|| env_u64("VERIF_BUDGET_S"))
        .unwrap_or(match opts.tier {
            Tier::Quick => 30,
            Tier::Thorough => 600,
        });
    let workers = opts.workers.max(1);
    let (tx, rx) = mpsc::channel::<Msg>();
    let mut slots: Vec<Slot> = (0..workers)
        .map(|k| spawn_worker(k, prop_id, opts.tier, opts.seed, k as u64, workers as u64, total, budget_s, tx.clone()))
        .collect();

    let mut cov = Coverage::default();
    let mut runs_done: u64 = 0;
    let mut foreign: u64 = 0;
    let mut foreign_samples: Vec<String> = vec![];
    let mut harness_errors: Vec<String> = vec![];
    let mut violations: Vec<(Violation, Trace)> = vec![];
    let mut sig_files: Vec<String> = vec![];
    let mut respawns = 0;
    let mut hang_deaths = 0;

    loop {
        if slots.iter().all(|s| s.done) {
            break;
        }
        match rx.recv_timeout(Duration::from_millis(500)) {
            Ok(Msg::Start(k, i)) => {
                slots[k].last_index = Some(i);
                slots[k].last_time = Instant::now();
            }
            Ok(Msg::Result(k, r)) => {
                slots[k].got_result = true;
                runs_done += r.runs;
                foreign += r.foreign;
                for s in r.foreign_samples {
                    if foreign_samples.len() < 8 {
                        foreign_samples.push(s);
                    }
                }
                harness_errors.extend(r.harness_errors);
                violations.extend(r.violations);
                sig_files.push(r.sigs_file.clone());
                cov.merge(r.cov);
            }
            Ok(Msg::Eof(k)) => {
                let st = slots[k].child.wait();
                if slots[k].got_result {
                    slots[k].done = true;
                } else {
                    // the worker died without a result: abort / stack overflow / killed for hanging
                    let idx = slots[k].last_index;
                    let sig = st.ok().and_then(|s| s.signal());
                    if let Some(i) = idx {
                        let trace = prop.generate(opts.seed, i, opts.tier);
                        let class = match sig {
                            Some(9) => format!("{}/hang", prop_id),
                            Some(s) => format!("{}/abort/signal{}", prop_id, s),
                            None => format!("{}/abort/exit", prop_id),
                        };
                        if prop_id == "C01" {
                            violations.push((
                                Violation::new(
                                    prop_id,
                                    class,
                                    format!("worker process died (signal {:?}) while executing run index {}", sig, i),
                                    0,
                                ),
                                trace,
                            ));
                        } else {
                            foreign += 1;
                            if foreign_samples.len() < 8 {
                                foreign_samples.push(format!("index {}: worker died with signal {:?}", i, sig));
                            }
                        }
                        runs_done += (i.saturating_sub(slots[k].start)) / workers as u64;
                        respawns += 1;
                        if sig == Some(9) {
                            hang_deaths += 1;
                        }
                        if respawns > 40 || hang_deaths > 3 {
                            slots[k].done = true;
                            if hang_deaths <= 3 {
                                harness_errors.push("too many worker deaths".to_owned());
                            }
                        } else {
                            let next = i + workers as u64;
                            let left = budget_s.saturating_sub(t0.elapsed().as_secs()).max(1);
                            slots[k] =
                                spawn_worker(k, prop_id, opts.tier, opts.seed, next, workers as u64, total, left, tx.clone());
                        }
                    } else {
                        slots[k].done = true;
                        harness_errors.push(format!("worker {} died before starting any run (signal {:?})", k, sig));
                    }
                }
            }
            Err(mpsc::RecvTimeoutError::Timeout) => {}
            Err(mpsc::RecvTimeoutError::Disconnected) => break,
        }
        // watchdog
        for s in slots.iter_mut() {
            if !s.done && !s.got_result && s.last_index.is_some() && s.last_time.elapsed() > Duration::from_secs(WATCHDOG_S) {
                let _ = s.child.kill(); // SIGKILL -> reported as hang through Eof
                s.last_time = Instant::now();
            }
        }
    }

    // distinct run signatures (exact)
    let mut sigs: HashSet<u64> = HashSet::new();
    for f in &sig_files {
        if let Ok(b) = std::fs::read(f) {
            for c in b.chunks_exact(8) {
                sigs.insert(u64::from_le_bytes(c.try_into().unwrap()));
            }
        }
        let _ = std::fs::remove_file(f);
    }
    Batch { cov, runs_done, foreign, foreign_samples, harness_errors, violations, sigs }
}

fn report_batch(prop: &dyn Property, prop_id: &str, opts: &CheckOpts, b: Batch, t0: Instant) -> i32 {
    let Batch { cov, runs_done, foreign, foreign_samples, mut harness_errors, mut violations, sigs } = b;
    // report
    let known = load_known();
    let mut exit = 0;
    let mut reported = 0;
    let mut known_hits: Vec<String> = vec![];
    let mut seen_classes: HashSet<String> = HashSet::new();
    let mut violation_lines: Vec<String> = vec![];
    let mut spurious: Vec<String> = vec![];
    violations.sort_by(|a, b| a.1.index.cmp(&b.1.index));
    for (v, trace) in &violations {
        if !seen_classes.insert(v.class.clone()) {
            continue;
        }
        if let Some(k) = known.iter().find(|k| {
            k.status == "known"
                && k.property == prop_id
                && v.class.starts_with(&k.class)
                && k.detail_contains.as_ref().map(|d| v.detail.contains(d.as_str())).unwrap_or(true)
        }) {
            let line = format!("KNOWN-FINDING: property={} {}", prop_id, k.what);
            if !known_hits.contains(&line) {
                out(&line);
                known_hits.push(line);
            }
            continue;
        }
        if reported >= 5 {
            continue;
        }
        match report_violation(prop, v, trace, opts.seed, opts) {
            Ok((path, v2)) => {
                out(&format!("VIOLATION property={} replay={}", prop_id, path.display()));
                out(&format!("  class={} detail={}", v2.class, v2.detail));
                violation_lines.push(format!("{} {}", v2.class, v2.detail));
                reported += 1;
                exit = 1;
            }
            Err(e) if e.starts_with("SPURIOUS") => {
                // not a violation and not a harness error: recorded in the evidence
                spurious.push(e);
            }
            Err(e) => {
                harness_errors.push(e);
            }
        }
    }
    for e in &spurious {
        eprintln!("note: {}", e);
    }
    if !harness_errors.is_empty() {
        for e in &harness_errors {
            eprintln!("HARNESS-ERROR: {}", e);
        }
        if exit == 0 {
            exit = 2;
        }
    }

    let wall = t0.elapsed().as_secs_f64();
    if opts.write_evidence {
        write_evidence(
            prop,
            opts,
            &cov,
            runs_done,
            sigs.len() as u64,
            foreign,
            &foreign_samples,
            reported,
            &known_hits,
            &violation_lines,
            &harness_errors,
            wall,
        );
    }
    out(&format!(
        "memsim {} tier={} seed={} runs={} distinct={} foreign={} violations={} known={} wall={:.1}s",
        prop_id,
        opts.tier.name(),
        opts.seed,
        runs_done,
        sigs.len(),
        foreign,
        reported,
        known_hits.len(),
        wall
    ));
    exit
}

#[allow(clippy::too_many_arguments)]
fn write_evidence(
    prop: &dyn Property,
    opts: &CheckOpts,
    cov: &Coverage,
    runs: u64,
    distinct: u64,
    foreign: u64,
    foreign_samples: &[String],
    reported: u32,
    known_hits: &[String],
    violation_lines: &[String],
    harness_errors: &[String],
    wall: f64,
) {
    let mut faults = serde_json::Map::new();
    let mut probes = serde_json::Map::new();
    let mut other = serde_json::Map::new();
    for (k, v) in &cov.counters {
        if let Some(f) = k.strip_prefix("fault_") {
            faults.insert(f.to_owned(), (*v).into());
        } else if k.starts_with("probe_") || k.starts_with("lenient_") || k.starts_with("stop_") {
            probes.insert(k.clone(), (*v).into());
        } else {
            other.insert(k.clone(), (*v).into());
        }
    }
    let mut sets = serde_json::Map::new();
    for (k, s) in &cov.sets {
        sets.insert(format!("{}_distinct", k), (s.len() as u64).into());
    }
    let per_hour = if wall > 0.0 { (runs as f64 / wall * 3600.0) as u64 } else { 0 };
    let ev = serde_json::json!({
        "property_id": prop.id(),
        "tier": opts.tier.name(),
        "seed": opts.seed,
        "level": prop.level(),
        "coverage": {
            "evaluations": runs,
            "distinct_nontrivial": distinct,
            "rule": format!("{} -- Measured: a run counts as non-trivial when this property's oracle actually judged something in it (step properties: at least one owned operation judged; C02: >= 2 bytes and >= 1 cut; C03: a non-text event expected; C11: >= 2 bytes; C15: a RIS occurred; C19: a complete OSC; otherwise: at least one non-empty step) - counter runs_nontrivial; distinct_nontrivial is the exact number of distinct (steps, geometry, mode, front end, wiring, extra) signatures among those runs.", prop.rule()),
            "samples": cov.samples,
            "exhaustive": false,
            "runs_per_hour": per_hour,
            "seeds_per_hour": per_hour,
            "simulated_time": "not applicable: memterm reads no clock; the scheduler works in logical steps (see atomic_steps)",
            "fault_kinds_fired": faults,
            "distinct_abstract_states_estimate_hll": cov.states.estimate(),
            "distinct_interleavings_estimate_hll": cov.interleavings.estimate(),
            "probes_and_leniencies": probes,
            "counters": other,
            "reach_sets": sets,
            "runs_aborted_by_foreign_failure": foreign,
            "foreign_failure_samples": foreign_samples,
            "known_findings_hit": known_hits,
            "violations_reported": violation_lines,
            "harness_errors": harness_errors,
            "workers": opts.workers,
            "real_vs_stub": {
                "real": ["ByteParser::feed + UTF-8 carry-over + 8-bit path", "Parser::feed, fast path, recogniser coroutine (shipping cfg(not(test)) copy), generator-rs", "escape/basic/csi dispatch tables", "Screen (all methods, resize, display)", "std::sync::Mutex in wiring P"],
                "stub": ["pty / kernel read boundaries / program (Program + Line actors)", "embedder paint/resize/UI threads (Renderer/Resizer/Operator actors)", "OS threads and mutex contention in wiring Q (simulator's sequentialisation, DESIGN 2.2)"]
            }
        },
        "assumptions": prop.assumptions(),
        "wall_s": wall,
        "violations": reported,
    });
    let dir = PathBuf::from(VERIF_DIR).join("evidence");
    let _ = std::fs::create_dir_all(&dir);
    let path = dir.join(format!("{}.json", prop.id()));
    if let Err(e) = std::fs::write(&path, serde_json::to_string_pretty(&ev).unwrap()) {
        eprintln!("memsim: cannot write evidence {}: {}", path.display(), e);
    }
}

// ----------------------------------------------------------------------------------- replay

pub fn replay_main(path: &str, machine: bool) -> i32 {
    let s = match std::fs::read_to_string(path) {
        Ok(s) => s,
        Err(e) => {
            eprintln!("memsim: cannot read {}: {}", path, e);
            return 2;
        }
    };
    let rf: ReplayFile = match serde_json::from_str(&s) {
        Ok(r) => r,
        Err(e) => {
            eprintln!("memsim: cannot parse {}: {}", path, e);
            return 2;
        }
    };
    let Some(prop) = props::by_id(&rf.property) else {
        eprintln!("memsim: unknown property {}", rf.property);
        return 2;
    };
    silence_stdout();
    exec::install_panic_hook();
    let mut cov = Coverage::default();
    for t in &rf.prelude {
        let _ = check_guarded(prop.as_ref(), t, &mut cov);
    }
    match check_guarded(prop.as_ref(), &rf.trace, &mut cov) {
        Outcome::Held => {
            out(&format!("HELD property={}", rf.property));
            0
        }
        Outcome::Violated(v) => {
            if !machine {
                out(&format!("VIOLATION property={} replay={}", rf.property, path));
                out(&format!("  detail={}", v.detail));
                if !rf.class.is_empty() {
                    out(&format!(
                        "  {}",
                        if v.class == rf.class { "REPRODUCED (same class)" } else { "DIFFERENT CLASS than recorded" }
                    ));
                }
            }
            out(&format!("CLASS {}", v.class));
            1
        }
        Outcome::Foreign(m) => {
            out(&format!("FOREIGN {}", m));
            if m.starts_with("HARNESS") {
                2
            } else {
                0
            }
        }
    }
}
