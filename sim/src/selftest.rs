//! Checking the checker (DESIGN 11): determinism of whole batches across processes and worker
//! counts, and equivalence of the two wirings on schedules without mid-chunk foreign steps.

use crate::exec::{self, NoObs};
use crate::gen::{self, Focus, Profile};
use crate::props::{self, Tier};
use crate::runner::{self, out, CheckOpts};
use crate::snap::Snapshot;
use crate::trace::Wiring;

fn cov_fingerprint(b: &runner::Batch) -> Vec<(String, String)> {
    let mut v: Vec<(String, String)> = Vec::new();
    for (k, n) in &b.cov.counters {
        v.push((format!("counter:{}", k), n.to_string()));
    }
    for (k, s) in &b.cov.sets {
        let mut x: Vec<_> = s.iter().copied().collect();
        x.sort();
        v.push((format!("set:{}", k), format!("{}:{:x}", x.len(), x.iter().fold(0u64, |a, b| a.rotate_left(7) ^ b))));
    }
    v.push(("hll:states".into(), serde_json::to_string(&b.cov.states).unwrap()));
    v.push(("hll:interleavings".into(), serde_json::to_string(&b.cov.interleavings).unwrap()));
    let mut sigs: Vec<_> = b.sigs.iter().copied().collect();
    sigs.sort();
    v.push(("run_sigs".into(), format!("{}:{:x}", sigs.len(), sigs.iter().fold(0u64, |a, b| a.rotate_left(7) ^ b))));
    v.push(("runs".into(), b.runs_done.to_string()));
    v.push(("foreign".into(), b.foreign.to_string()));
    let mut cl: Vec<String> = b.violations.iter().map(|(v, t)| format!("{}@{}", v.class, t.index)).collect();
    cl.sort();
    v.push(("violations".into(), cl.join(",")));
    v
}

pub fn determinism(only: Option<&str>, seeds: u64) -> i32 {
    runner::silence_stdout();
    exec::install_panic_hook();
    let mut bad = 0;
    for p in props::all() {
        if let Some(o) = only {
            if o != p.id() {
                continue;
            }
        }
        let mk = |workers: usize| CheckOpts {
            tier: Tier::Quick,
            seed: runner::seed_from_env(),
            workers,
            runs: Some(seeds),
            budget_s: Some(3600),
            write_evidence: false,
        };
        // three executions: 16 workers, 16 workers again (fresh processes, fresh hash keys), 3 workers
        let a = cov_fingerprint(&runner::run_batch(p.as_ref(), p.id(), &mk(16)));
        let b = cov_fingerprint(&runner::run_batch(p.as_ref(), p.id(), &mk(16)));
        let c = cov_fingerprint(&runner::run_batch(p.as_ref(), p.id(), &mk(3)));
        let mut diffs = Vec::new();
        for (x, name) in [(&b, "second execution"), (&c, "3 workers")] {
            for (i, (k, v)) in a.iter().enumerate() {
                match x.get(i) {
                    Some((k2, v2)) if k2 == k && v2 == v => {}
                    other => diffs.push(format!("{}: {} = {:.60} vs {:?}", name, k, v, other.map(|o| &o.1[..o.1.len().min(60)]))),
                }
            }
            if x.len() != a.len() {
                diffs.push(format!("{}: {} vs {} fingerprint entries", name, a.len(), x.len()));
            }
        }
        if diffs.is_empty() {
            out(&format!("determinism {}: {} seeds x 3 executions (16/16/3 workers) identical", p.id(), seeds));
        } else {
            bad += 1;
            out(&format!("determinism {}: DIVERGENCE", p.id()));
            for d in diffs.iter().take(8) {
                out(&format!("  {}", d));
            }
        }
    }
    if bad > 0 {
        eprintln!("HARNESS-ERROR: determinism self-test failed for {} properties", bad);
        2
    } else {
        0
    }
}

/// Wiring P vs wiring Q on schedules whose foreign steps fall between chunks only.
pub fn seam(seeds: u64) -> i32 {
    runner::silence_stdout();
    exec::install_panic_hook();
    let seed = runner::seed_from_env();
    let mut compared = 0u64;
    let mut skipped = 0u64;
    for i in 0..seeds {
        let mut p = Profile::base(Focus::Any);
        p.midchunk = false;
        p.corrupt_pct = 40;
        p.switch_pct = 10;
        p.chars_pct = 15;
        let tq = gen::trace("SEAM", seed, i, &p);
        let mut tp = tq.clone();
        tp.wiring = Wiring::P;
        let rq = exec::guarded(|| exec::run_q(&tq, &mut NoObs).map(|(_, s)| Snapshot::take(&s)));
        let rp = exec::guarded(|| {
            exec::run_p(&tp, &mut NoObs).map(|(_, s)| {
                let g = s.lock().unwrap();
                Snapshot::take(&g)
            })
        });
        match (rq, rp) {
            (Ok(Ok(a)), Ok(Ok(b))) => {
                compared += 1;
                if let Some(d) = a.diff(&b, &[]) {
                    out(&format!("seam: wiring Q and wiring P differ on seed {} index {}: {}", seed, i, d));
                    out(&tq.to_json());
                    eprintln!("HARNESS-ERROR: seam-equivalence self-check failed");
                    return 2;
                }
            }
            _ => skipped += 1,
        }
    }
    out(&format!("seam: {} schedules executed under both wirings, final snapshots identical ({} skipped: a run panicked)", compared, skipped));
    0
}
