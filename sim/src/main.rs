mod cov;
mod exec;
mod gen;
mod ops;
mod prng;
mod props;
mod runner;
mod selftest;
mod shrink;
mod snap;
mod spec;
mod trace;

use props::Tier;

fn usage() -> i32 {
    eprintln!(
        "usage: memsim check <Cxx> [--tier quick|thorough] [--runs N] [--budget S] [--workers W] [--no-evidence]\n       memsim replay <file>\n       memsim gen <Cxx> <index>        (print the trace generated for VERIF_SEED/index)\n       memsim selftest determinism [--seeds N]"
    );
    2
}

fn main() {
    let args: Vec<String> = std::env::args().skip(1).collect();
    if args.is_empty() {
        std::process::exit(usage());
    }
    let code = match args[0].as_str() {
        "worker" => runner::worker_main(&args[1..]),
        "check" => {
            if args.len() < 2 {
                std::process::exit(usage());
            }
            let mut opts = runner::CheckOpts {
                tier: match std::env::var("VERIF_TIER").as_deref() {
                    Ok("thorough") => Tier::Thorough,
                    _ => Tier::Quick,
                },
                seed: runner::seed_from_env(),
                workers: std::thread::available_parallelism().map(|n| n.get()).unwrap_or(4).min(16),
                runs: None,
                budget_s: None,
                write_evidence: true,
            };
            let mut i = 2;
            while i < args.len() {
                match args[i].as_str() {
                    "--tier" => {
                        i += 1;
                        opts.tier = if args.get(i).map(|s| s.as_str()) == Some("thorough") {
                            Tier::Thorough
                        } else {
                            Tier::Quick
                        };
                    }
                    "--runs" => {
                        i += 1;
                        opts.runs = args.get(i).and_then(|s| s.parse().ok());
                    }
                    "--budget" => {
                        i += 1;
                        opts.budget_s = args.get(i).and_then(|s| s.parse().ok());
                    }
                    "--workers" => {
                        i += 1;
                        opts.workers = args.get(i).and_then(|s| s.parse().ok()).unwrap_or(opts.workers);
                    }
                    "--no-evidence" => opts.write_evidence = false,
                    _ => {}
                }
                i += 1;
            }
            runner::check_main(&args[1], &opts)
        }
        "replay" => {
            if args.len() < 2 {
                std::process::exit(usage());
            }
            runner::replay_main(&args[1], args.iter().any(|a| a == "--machine"))
        }
        "gen" => {
            if args.len() < 3 {
                std::process::exit(usage());
            }
            match props::by_id(&args[1]) {
                Some(p) => {
                    let t = p.generate(runner::seed_from_env(), args[2].parse().unwrap_or(0), Tier::Quick);
                    println!("{}", serde_json::to_string_pretty(&t).unwrap());
                    0
                }
                None => 2,
            }
        }
        "debug19" => {
            let s = std::fs::read_to_string(&args[1]).unwrap();
            let rf: runner::ReplayFile = serde_json::from_str(&s).unwrap();
            props::stream::debug_c19(&rf.trace);
            0
        }
        "selftest" => {
            let n = args
                .iter()
                .position(|a| a == "--seeds")
                .and_then(|i| args.get(i + 1))
                .and_then(|s| s.parse().ok())
                .unwrap_or(2000u64);
            let only = args.iter().position(|a| a == "--prop").and_then(|i| args.get(i + 1)).map(|s| s.as_str());
            match args.get(1).map(|s| s.as_str()) {
                Some("determinism") => selftest::determinism(only, n),
                Some("seam") => selftest::seam(n),
                _ => usage(),
            }
        }
        _ => usage(),
    };
    std::process::exit(code);
}
