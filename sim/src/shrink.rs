//! Delta-debugging minimiser over traces. A candidate is kept only while the same property
//! reports the same violation class.

use std::time::{Duration, Instant};

use crate::trace::{Step, Trace};

pub struct Budget {
    pub candidates: u32,
    pub deadline: Instant,
    pub tried: u32,
}

impl Budget {
    pub fn new(candidates: u32, secs: u64) -> Self {
        Budget { candidates, deadline: Instant::now() + Duration::from_secs(secs), tried: 0 }
    }
    fn ok(&self) -> bool {
        self.tried < self.candidates && Instant::now() < self.deadline
    }
}

fn try_it(cand: &Trace, test: &mut dyn FnMut(&Trace) -> bool, b: &mut Budget) -> bool {
    if !b.ok() {
        return false;
    }
    b.tried += 1;
    test(cand)
}

/// ddmin over a list: returns the reduced list
fn ddmin<T: Clone>(
    items: Vec<T>,
    build: &dyn Fn(&[T]) -> Trace,
    test: &mut dyn FnMut(&Trace) -> bool,
    b: &mut Budget,
) -> Vec<T> {
    let mut cur = items;
    let mut n = 2usize;
    while cur.len() >= 1 && b.ok() {
        let len = cur.len();
        let chunk = (len + n - 1) / n;
        let mut reduced = false;
        let mut i = 0;
        while i < len {
            let hi = (i + chunk).min(len);
            let mut cand: Vec<T> = Vec::with_capacity(len - (hi - i));
            cand.extend_from_slice(&cur[..i]);
            cand.extend_from_slice(&cur[hi..]);
            if try_it(&build(&cand), test, b) {
                cur = cand;
                n = (n - 1).max(2);
                reduced = true;
                break;
            }
            i = hi;
        }
        if !reduced {
            if chunk <= 1 {
                break;
            }
            n = (n * 2).min(len);
        }
        if cur.is_empty() {
            break;
        }
    }
    cur
}

fn shrink_numbers(v: &mut serde_json::Value, path: &mut Vec<usize>, out: &mut Vec<(Vec<usize>, u64)>) {
    match v {
        serde_json::Value::Number(n) => {
            if let Some(x) = n.as_u64() {
                out.push((path.clone(), x));
            }
        }
        serde_json::Value::Array(a) => {
            for (i, x) in a.iter_mut().enumerate() {
                path.push(i);
                shrink_numbers(x, path, out);
                path.pop();
            }
        }
        serde_json::Value::Object(o) => {
            for (i, (_k, x)) in o.iter_mut().enumerate() {
                path.push(i);
                shrink_numbers(x, path, out);
                path.pop();
            }
        }
        _ => {}
    }
}

fn set_number(v: &mut serde_json::Value, path: &[usize], val: u64) {
    if path.is_empty() {
        *v = serde_json::Value::from(val);
        return;
    }
    match v {
        serde_json::Value::Array(a) => set_number(&mut a[path[0]], &path[1..], val),
        serde_json::Value::Object(o) => {
            let (_k, x) = o.iter_mut().nth(path[0]).unwrap();
            set_number(x, &path[1..], val)
        }
        _ => {}
    }
}

pub fn shrink(start: Trace, test: &mut dyn FnMut(&Trace) -> bool, b: &mut Budget) -> Trace {
    let mut cur = start;
    let mut progress = true;
    let mut rounds = 0;
    while progress && b.ok() && rounds < 6 {
        rounds += 1;
        let before = cur.clone();

        // 1. drop steps
        {
            let base = cur.clone();
            let build = |s: &[Step]| {
                let mut t = base.clone();
                t.steps = s.to_vec();
                t
            };
            let steps = ddmin(cur.steps.clone(), &build, test, b);
            cur.steps = steps;
        }
        // 1b. drop extras
        if !cur.extra.is_empty() {
            let base = cur.clone();
            let build = |s: &[u32]| {
                let mut t = base.clone();
                t.extra = s.to_vec();
                t
            };
            let ex = ddmin(cur.extra.clone(), &build, test, b);
            cur.extra = ex;
        }
        // 2. merge adjacent feeds
        {
            let mut i = 0;
            while i + 1 < cur.steps.len() && b.ok() {
                if let (Step::Feed(a), Step::Feed(c)) = (&cur.steps[i], &cur.steps[i + 1]) {
                    let mut m = a.clone();
                    m.extend_from_slice(c);
                    let mut cand = cur.clone();
                    cand.steps[i] = Step::Feed(m);
                    cand.steps.remove(i + 1);
                    if try_it(&cand, test, b) {
                        cur = cand;
                        continue;
                    }
                }
                i += 1;
            }
        }
        // 3. delete bytes inside each feed
        for i in 0..cur.steps.len() {
            if !b.ok() {
                break;
            }
            if let Step::Feed(bytes) = cur.steps[i].clone() {
                if bytes.is_empty() {
                    continue;
                }
                let base = cur.clone();
                let build = |s: &[u8]| {
                    let mut t = base.clone();
                    t.steps[i] = Step::Feed(s.to_vec());
                    t
                };
                let nb = ddmin(bytes, &build, test, b);
                cur.steps[i] = Step::Feed(nb);
            }
        }
        // 4. geometry
        {
            let cands = [
                (1u32, 1u32),
                (2, 1),
                (1, 2),
                (2, 2),
                (3, 2),
                (3, 3),
                (4, 3),
                (5, 3),
                (8, 4),
                (cur.columns / 2, cur.lines),
                (cur.columns, cur.lines / 2),
                (cur.columns.saturating_sub(1), cur.lines),
                (cur.columns, cur.lines.saturating_sub(1)),
            ];
            for (c, l) in cands {
                if c == 0 || l == 0 || (c >= cur.columns && l >= cur.lines) || c > cur.columns || l > cur.lines {
                    continue;
                }
                let mut cand = cur.clone();
                cand.columns = c;
                cand.lines = l;
                if try_it(&cand, test, b) {
                    cur = cand;
                    break;
                }
            }
        }
        // 5. simplify bytes: replace by 'a'
        if cur.bytes_total() <= 120 {
            for i in 0..cur.steps.len() {
                if let Step::Feed(bytes) = cur.steps[i].clone() {
                    for k in 0..bytes.len() {
                        if !b.ok() {
                            break;
                        }
                        if bytes[k] == b'a' {
                            continue;
                        }
                        let mut cand = cur.clone();
                        if let Step::Feed(bb) = &mut cand.steps[i] {
                            bb[k] = b'a';
                        }
                        if try_it(&cand, test, b) {
                            cur = cand;
                        }
                    }
                }
            }
        }
        // 6. shrink numbers in Api / Resize / Apply steps
        for i in 0..cur.steps.len() {
            if !b.ok() {
                break;
            }
            if matches!(cur.steps[i], Step::Feed(_) | Step::Charset(_)) {
                continue;
            }
            let mut val = serde_json::to_value(&cur.steps[i]).unwrap();
            let mut nums = Vec::new();
            shrink_numbers(&mut val, &mut Vec::new(), &mut nums);
            let floor = if matches!(cur.steps[i], Step::Resize(..)) { 1 } else { 0 };
            for (path, x) in nums {
                for c in [0u64, 1, 2, x / 2, x.saturating_sub(1)] {
                    if c >= x || c < floor || !b.ok() {
                        continue;
                    }
                    let mut v2 = serde_json::to_value(&cur.steps[i]).unwrap();
                    set_number(&mut v2, &path, c);
                    if let Ok(st) = serde_json::from_value::<Step>(v2) {
                        let mut cand = cur.clone();
                        cand.steps[i] = st;
                        if try_it(&cand, test, b) {
                            cur = cand;
                            break;
                        }
                    }
                }
            }
        }
        // 7. prefer UTF-8 mode, wiring as is
        if !cur.utf8 {
            let mut cand = cur.clone();
            cand.utf8 = true;
            if try_it(&cand, test, b) {
                cur = cand;
            }
        }
        progress = cur != before;
    }
    cur
}
