//! The step-relation properties (C04-C08, C12-C14, C16, C18, C20): wiring Q runs with all
//! actors; every operation the property owns is judged against the relation of DESIGN 8.3
//! from the real pre-state. Operations owned by other properties are not judged.

use crate::cov::Coverage;
use crate::exec::{self, Actor, Observer, StepCtx};
use crate::gen::{self, Focus, Profile};
use crate::ops::Op;
use crate::prng::Rng;
use crate::props::{Property, Tier};
use crate::snap::{clone_screen, Snapshot};
use crate::spec::{model, tables};
use crate::trace::{Trace, Violation};
use memterm::screen::{Charset, Screen};

pub struct StepProp {
    pub id: &'static str,
    pub focus: &'static [Focus],
    pub owns: fn(&Op) -> bool,
    pub rule: &'static str,
    pub quick_runs: u64,
    pub thorough_runs: u64,
    pub tune: fn(&mut Profile, &mut Rng),
}

fn owns_c04(op: &Op) -> bool {
    matches!(op, Op::Draw(_))
}
fn owns_c05(op: &Op) -> bool {
    use Op::*;
    matches!(
        op,
        CursorUp(_)
            | CursorDown(_)
            | CursorForward(_)
            | CursorBack(_)
            | CursorDown1(_)
            | CursorUp1(_)
            | CursorToColumn(_)
            | CursorToLine(_)
            | CursorPosition(..)
            | Backspace
            | CarriageReturn
    )
}
fn owns_c06(op: &Op) -> bool {
    use Op::*;
    // Draw: only where it scrolls (autowrap at the bottom margin), decided per step
    matches!(op, Index | Linefeed | ReverseIndex | InsertLines(_) | DeleteLines(_) | SetMargins(..) | Draw(_))
}
fn owns_c07(op: &Op) -> bool {
    use Op::*;
    matches!(op, EraseInDisplay(_) | EraseInLine(_) | EraseCharacters(_))
}
fn owns_c08(op: &Op) -> bool {
    matches!(op, Op::Sgr(_))
}
fn owns_c12(op: &Op) -> bool {
    // "IRM, LNM and DECAWM govern insertion, newline and autowrap": Draw where the mode set
    // decides the outcome (insert mode, or the text reaches the right edge) and Linefeed under
    // LNM, decided per step; whatever last changed the mode set (SM/RM, DECRC, RIS)
    matches!(op, Op::SetMode(..) | Op::ResetMode(..) | Op::Draw(_) | Op::Linefeed)
}
fn owns_c13(op: &Op) -> bool {
    // Draw: only in insert mode, where it performs an implicit ICH (decided per step)
    matches!(op, Op::InsertCharacters(_) | Op::DeleteCharacters(_) | Op::Draw(_))
}
fn owns_c14(op: &Op) -> bool {
    matches!(op, Op::SaveCursor | Op::RestoreCursor)
}
fn owns_c16(op: &Op) -> bool {
    // resize() itself and the DECCOLM 132-column round trip (which resizes internally)
    match op {
        Op::Resize(..) => true,
        Op::SetMode(l, p) | Op::ResetMode(l, p) => l.iter().any(|m| if *p { *m == 3 } else { *m == 96 }),
        _ => false,
    }
}
fn owns_c18(op: &Op) -> bool {
    matches!(op, Op::Tab | Op::SetTabStop | Op::ClearTabStop(_) | Op::Reset)
}
fn owns_c20(op: &Op) -> bool {
    // Reset: "G0 starts as Latin-1 and G1 as DEC Special Graphics" (also checked on the new screen)
    matches!(op, Op::DefineCharset(..) | Op::ShiftIn | Op::ShiftOut | Op::Draw(_) | Op::Reset)
}

fn no_tune(_p: &mut Profile, _r: &mut Rng) {}

fn tune_c08(p: &mut Profile, _r: &mut Rng) {
    p.resizer_pct = 10;
    p.kinds = [60, 10, 20, 4, 6, 0];
}
fn tune_c16(p: &mut Profile, _r: &mut Rng) {
    p.resizer_pct = 100;
    p.kinds = [25, 15, 50, 2, 6, 2];
    p.corrupt_pct = 15;
}
fn tune_c20(p: &mut Profile, r: &mut Rng) {
    p.eightbit_pct = 80;
    p.kinds = [20, 20, 10, 5, 0, 45];
    p.resizer_pct = 10;
    p.switch_pct = if r.chance(1, 4) { 40 } else { 0 };
}
fn tune_c04(p: &mut Profile, _r: &mut Rng) {
    p.kinds = [25, 40, 25, 4, 4, 2];
}
fn tune_editor(p: &mut Profile, _r: &mut Rng) {
    p.kinds = [30, 8, 50, 3, 6, 3];
}
fn tune_c13(p: &mut Profile, _r: &mut Rng) {
    p.kinds = [25, 20, 45, 3, 5, 2];
}

pub const STEP_PROPS: &[StepProp] = &[
    StepProp {
        id: "C04",
        focus: &[Focus::Text, Focus::Text, Focus::Any, Focus::Modes, Focus::Charset],
        owns: owns_c04,
        rule: "one case = one seeded wiring-Q run (text/editor sessions, Operator draw() calls with multi-character strings, mode toggles, SO/SI, renditions, Renderer paints and Resizer steps before draws); every draw event is judged by step relation DRAW from the real pre-state (affected rows, cursor, nothing else changed). Non-trivial = at least one draw judged; distinct = distinct hash of (steps, geometry, mode)",
        quick_runs: 400_000,
        thorough_runs: 10_000_000,
        tune: tune_c04,
    },
    StepProp {
        id: "C05",
        focus: &[Focus::Movement],
        owns: owns_c05,
        rule: "one case = one seeded wiring-Q run; CUU/CUD/CUF/CUB/CNL/CPL/HPR/VPR/CHA/VPA/CUP/HVP/BS/CR through the parser (raw csi/basic dispatch calls, lowered through the documented table) and through the Operator, parameters {absent,0,1,2,..size+2,9999}, with/without margins and DECOM, cursor anywhere incl. pending wrap; judged by step relation MOVE, every other component unchanged. Distinct = distinct (steps, geometry) hash; reach_sets.c05_tuples counts distinct (op, parameter class, cursor class, region class, DECOM)",
        quick_runs: 400_000,
        thorough_runs: 10_000_000,
        tune: no_tune,
    },
    StepProp {
        id: "C06",
        focus: &[Focus::Scroll],
        owns: owns_c06,
        rule: "one case = one seeded wiring-Q run over distinct-marker fills with never-written rows, every region, cursor inside/on/outside margins, counts {absent,0,1,..lines+1,9999}, IND/LF/VT/FF/NEL/RI, IL/DL, DECSTBM, with Renderer paints and Resizer steps before the operation; judged by step relations INDEX/RINDEX/LINEFEED/IL/DL/STBM",
        quick_runs: 400_000,
        thorough_runs: 10_000_000,
        tune: tune_editor,
    },
    StepProp {
        id: "C07",
        focus: &[Focus::Erase],
        owns: owns_c07,
        rule: "one case = one seeded wiring-Q run over marker fills with coloured renditions; ED/EL selectors {absent,0..5,9999}, ECH counts {absent,0,1,..columns+1,9999}, cursor everywhere incl. pending wrap, with margins/DECOM; judged by step relations ED/EL/ECH",
        quick_runs: 400_000,
        thorough_runs: 10_000_000,
        tune: tune_editor,
    },
    StepProp {
        id: "C08",
        focus: &[Focus::Sgr],
        owns: owns_c08,
        rule: "one case = one seeded wiring-Q run; CSI ... m through the parser and select_graphic_rendition through the Operator: single codes 0..=9999, pairs/triples, all 38/48 forms incl. truncated tails and out-of-range values; judged by step relation SGR (own fold, own palette computation), grid unchanged; reach_sets report codes and palette indices hit",
        quick_runs: 400_000,
        thorough_runs: 10_000_000,
        tune: tune_c08,
    },
    StepProp {
        id: "C12",
        focus: &[Focus::Modes],
        owns: owns_c12,
        rule: "one case = one seeded wiring-Q run; SM/RM with mode numbers 0..=9999 x {private, ANSI}, lists of 1-3, repeated set/set and reset/reset, both Operator spellings, interleaved with DECSC/DECRC, resizes and drawing; judged by step relations SM/RM (mode set plus per-mode cursor, geometry, cells, rendition, hidden flag), by DRAW wherever IRM is set or the text reaches the right edge (the outcome must follow the mode set as it stands, whoever changed it last) and by LINEFEED under LNM; reach_sets report distinct mode keys hit",
        quick_runs: 400_000,
        thorough_runs: 10_000_000,
        tune: no_tune,
    },
    StepProp {
        id: "C13",
        focus: &[Focus::InsDel],
        owns: owns_c13,
        rule: "one case = one seeded wiring-Q run over marker rows; ICH/DCH with counts {absent,0,1,..columns+1,9999} at every column incl. pending wrap, never-written rows, ICH/DCH/IRM-draw/EL interleavings on one row followed by paints and grow resizes; judged by step relations ICH/DCH (list splice on the visible row, cursor and other rows unchanged)",
        quick_runs: 400_000,
        thorough_runs: 10_000_000,
        tune: tune_c13,
    },
    StepProp {
        id: "C14",
        focus: &[Focus::SaveRestore],
        owns: owns_c14,
        rule: "one case = one seeded wiring-Q run; save^k ... restore^m around movement, SGR, SO/SI, designations, DECOM/DECAWM changes, margins and resizes; judged by step relations SAVE/RESTORE (LIFO, clamping, one-way re-enabling of DECOM/DECAWM, empty-stack behaviour, grid/margins/tab stops unchanged)",
        quick_runs: 400_000,
        thorough_runs: 10_000_000,
        tune: no_tune,
    },
    StepProp {
        id: "C16",
        focus: &[Focus::Resize, Focus::Resize, Focus::Resize, Focus::InsDel, Focus::Scroll, Focus::Erase],
        owns: owns_c16,
        rule: "one case = one seeded wiring-Q run with 1-4 Resizer steps at arbitrary event boundaries of marker-filled histories (margins, DECOM, pending-wrap cursor, wide characters on the cut column, hidden cells); targets 1..=max+2 in both dimensions, shrink-then-grow sequences; judged by step relation RESIZE (crop/extend, rows dropped from the top, added area blank, margins reset, cursor inside, all rows dirty, same size = identical snapshot)",
        quick_runs: 400_000,
        thorough_runs: 10_000_000,
        tune: tune_c16,
    },
    StepProp {
        id: "C18",
        focus: &[Focus::Tabs],
        owns: owns_c18,
        rule: "one case = one seeded wiring-Q run; HTS/TBC/HT sequences on widths 1..=140 with the cursor at every column incl. pending wrap, resizes and DECCOLM between setting a stop and using it; judged by step relations HTS/TBC/HT and the RIS default stops {8,16,..} < columns",
        quick_runs: 400_000,
        thorough_runs: 10_000_000,
        tune: no_tune,
    },
    StepProp {
        id: "C20",
        focus: &[Focus::Charset],
        owns: owns_c20,
        rule: "one case = one seeded wiring-Q run (mostly 8-bit mode, charset sweeps, SO/SI, designators incl. unsupported finals, DECSC/DECRC, RIS, Operator define_charset/shift/draw); DEFINE/SHIFT judged by step relations against the reference tables; each draw judged by a translation twin: the real draw(text) must equal draw(reference-translated text) on a copy of the pre-state screen whose G0/G1 are identity; reach_sets.c20_table_byte counts (table, byte) pairs hit out of 1024",
        quick_runs: 400_000,
        thorough_runs: 10_000_000,
        tune: tune_c20,
    },
];

fn param_class(n: &Option<u32>, size: u32) -> u64 {
    match n {
        None => 0,
        Some(0) => 1,
        Some(1) => 2,
        Some(2) => 3,
        Some(v) if *v + 1 == size => 4,
        Some(v) if *v == size => 5,
        Some(v) if *v == size + 1 => 6,
        Some(v) if *v == size + 2 => 7,
        Some(9999) => 8,
        Some(v) if *v < size => 9,
        _ => 10,
    }
}

struct StepObs<'a> {
    sp: &'a StepProp,
    cov: &'a mut Coverage,
    judged: u64,
    /// C20: a second real screen that receives every operation, with identity G0/G1 forced
    /// after each of them and draws replaced by draws of the reference translation
    twin: Option<Screen>,
    twin_prev: Option<Snapshot>,
    /// owned operations as the parser delivered them (Feeder actor only), lowered, in order
    parser_events: Vec<Op>,
    /// was a snapshot taken for the operation being judged (conditional ownership of draw)
    have_snap: bool,
    /// C14: the history oracle - the stack of cursor states as DECSC saw them. Only DECSC and
    /// DECRC may change the real stack; every other operation (resize included, which pushes
    /// and pops a savepoint itself) must leave it exactly as it was.
    shadow: Vec<crate::snap::SaveSnap>,
}

fn which_table(t: &[char; 256]) -> u64 {
    for (i, code) in ["B", "0", "U", "V"].iter().enumerate() {
        if tables::table(code).map(|r| &r == t).unwrap_or(false) {
            return i as u64;
        }
    }
    9
}

impl<'a> StepObs<'a> {
    fn reach(&mut self, low: &Op, pre: &Snapshot) {
        use Op::*;
        let (t, b) = pre.region();
        let cur_class = |pre: &Snapshot| -> u64 {
            let xc = if pre.x == 0 {
                0
            } else if pre.x == pre.columns {
                3
            } else if pre.x + 1 == pre.columns {
                2
            } else {
                1
            };
            let yc = if pre.y < t {
                0
            } else if pre.y == t {
                1
            } else if pre.y < b {
                2
            } else if pre.y == b {
                3
            } else {
                4
            };
            xc * 5 + yc
        };
        let region_class = if pre.margins.is_none() { 0 } else { 1 };
        let decom = pre.has(memterm::modes::DECOM) as u64;
        let mut key = |name: &str, pc: u64, cov: &mut Coverage| {
            let k = crate::prng::hash_str(name) ^ (pc << 8) ^ (cur_class(pre) << 16) ^ (region_class << 24) ^ (decom << 25);
            cov.set_insert(&format!("{}_tuples", name.split('/').next().unwrap_or("x")), k);
        };
        let id = self.sp.id;
        match low {
            CursorUp(n) | CursorDown(n) | CursorDown1(n) | CursorUp1(n) | CursorToLine(n) | InsertLines(n)
            | DeleteLines(n) => key(&format!("{}/{}", id, low.name()), param_class(n, pre.lines), self.cov),
            CursorForward(n) | CursorBack(n) | CursorToColumn(n) | InsertCharacters(n) | DeleteCharacters(n)
            | EraseCharacters(n) => key(&format!("{}/{}", id, low.name()), param_class(n, pre.columns), self.cov),
            CursorPosition(r, c) => key(
                &format!("{}/{}", id, low.name()),
                param_class(r, pre.lines) * 11 + param_class(c, pre.columns),
                self.cov,
            ),
            EraseInDisplay(h) | EraseInLine(h) | ClearTabStop(h) => {
                key(&format!("{}/{}", id, low.name()), h.map(|v| v.min(6) as u64 + 1).unwrap_or(0), self.cov)
            }
            SetMargins(a, bb) => key(
                &format!("{}/{}", id, low.name()),
                param_class(a, pre.lines) * 11 + param_class(bb, pre.lines),
                self.cov,
            ),
            Sgr(list) => {
                for c in list {
                    self.cov.set_insert("c08_codes", *c as u64);
                }
                let mut i = 0;
                while i + 2 < list.len() {
                    if (list[i] == 38 || list[i] == 48) && list[i + 1] == 5 && list[i + 2] < 256 {
                        self.cov.set_insert("c08_palette_indices", list[i + 2] as u64);
                    }
                    i += 1;
                }
            }
            SetMode(list, p) | ResetMode(list, p) => {
                let deccolm = list.iter().any(|m| if *p { *m == 3 } else { *m == 96 });
                if deccolm && matches!(low, ResetMode(..)) && pre.columns == 132 && pre.saved_columns.is_some() {
                    self.cov.hit("probe_deccolm_round_trip_restores_width");
                }
                for m in list {
                    let k = if *p { (*m as u64) << 5 } else { *m as u64 };
                    self.cov.set_insert("c12_mode_keys", k * 2 + matches!(low, SetMode(..)) as u64);
                }
            }
            Draw(text) if id == "C20" => {
                let tb = if pre.charset == 1 { &pre.g1 } else { &pre.g0 };
                let ti = which_table(tb);
                for ch in text.chars() {
                    if (ch as u32) < 256 {
                        self.cov.set_insert("c20_table_byte", ti * 256 + ch as u64);
                        self.cov.set_insert("c20_table_byte_shift", (ti * 256 + ch as u64) * 2 + pre.charset as u64);
                    } else {
                        self.cov.hit("probe_draw_above_255");
                    }
                }
            }
            Draw(text) => {
                if pre.x == pre.columns {
                    self.cov.hit("probe_draw_in_pending_wrap_column");
                }
                if text.chars().count() > 1 {
                    self.cov.hit("probe_multichar_draw");
                }
                if pre.has(memterm::modes::IRM) {
                    self.cov.hit("probe_draw_in_insert_mode");
                }
                if pre.absent_rows > 0 {
                    self.cov.hit("probe_draw_with_sparse_rows");
                }
            }
            Resize(l, c) => {
                let (l2, c2) = (l.unwrap_or(pre.lines), c.unwrap_or(pre.columns));
                let k = match (l2.cmp(&pre.lines), c2.cmp(&pre.columns)) {
                    (std::cmp::Ordering::Less, _) => "probe_resize_shrink_lines",
                    (_, std::cmp::Ordering::Less) => "probe_resize_shrink_columns",
                    (std::cmp::Ordering::Equal, std::cmp::Ordering::Equal) => "probe_resize_same_size",
                    _ => "probe_resize_grow",
                };
                self.cov.hit(k);
                if pre.margins.is_some() {
                    self.cov.hit("probe_resize_with_region_set");
                }
                if pre.hidden_cells > 0 {
                    self.cov.hit("probe_resize_with_hidden_cells");
                }
                if pre.x == pre.columns {
                    self.cov.hit("probe_resize_with_pending_wrap_cursor");
                }
                if c2 < pre.columns && c2 >= 1 {
                    use unicode_width::UnicodeWidthChar;
                    let cut = (c2 - 1) as usize;
                    if pre.grid.iter().any(|row| {
                        row.get(cut).and_then(|c| c.data.chars().next()).map(|ch| ch.width() == Some(2)).unwrap_or(false)
                    }) {
                        self.cov.hit("probe_resize_cuts_a_wide_character");
                    }
                }
            }
            RestoreCursor => {
                if pre.savepoints.len() >= 3 {
                    self.cov.hit("probe_savepoint_depth_ge_3");
                }
                if pre.savepoints.is_empty() {
                    self.cov.hit("probe_restore_on_empty_stack");
                }
            }
            _ => {}
        }
        if matches!(low, Index | Linefeed | ReverseIndex | InsertLines(_) | DeleteLines(_))
            && pre.margins.is_some()
            && pre.absent_rows > 0
        {
            self.cov.hit("probe_scroll_with_region_on_sparse_rows");
        }
    }
}

/// Parser path (all step properties, C15): the wiring-Q event queue holds what the real parser
/// delivered; the reference recogniser (DESIGN 8.1), run over the reference decoding of the
/// delivered bytes, says what it must have delivered. Both lists are filtered to the operations
/// the property owns and compared. This is what makes a step property sensitive to recogniser
/// state leaking from one sequence into the next (parameters, the private flag, a dropped or
/// duplicated event): the step relations alone judge whatever call arrives, faithfully.
/// Runs whose input leaves the documented grammar, contains ill-formed UTF-8 (C11's business) or
/// switches mode with a pending tail are not judged.
pub fn parser_path(
    prop: &str,
    trace: &Trace,
    delivered: &[Op],
    owns: fn(&Op) -> bool,
    cov: &mut Coverage,
) -> Result<(), Violation> {
    use crate::spec::recog::{normalise, Recog, RefDecoder};
    use crate::trace::{Front, Step};
    let mut variants: Vec<Vec<Op>> = Vec::new();
    for strip_bom in [false, true] {
        let mut rf = Recog::new(trace.utf8);
        let mut dec = RefDecoder::default();
        let mut fresh = true;
        let mut seg_bytes: Vec<u8> = Vec::new();
        let mut bom_seen = false;
        for s in &trace.steps {
            match s {
                Step::Feed(b) => {
                    let mut text: String = match (trace.front, rf.utf8) {
                        (Front::Chars, _) => String::from_utf8_lossy(b).into_owned(),
                        (Front::Bytes, true) => {
                            seg_bytes.extend_from_slice(b);
                            dec.feed(b)
                        }
                        (Front::Bytes, false) => b.iter().map(|x| *x as char).collect(),
                    };
                    if trace.front == Front::Bytes && rf.utf8 && fresh && !text.is_empty() {
                        fresh = false;
                        if text.starts_with('\u{feff}') {
                            bom_seen = true;
                            if strip_bom {
                                text = text.chars().skip(1).collect();
                            }
                        }
                    }
                    rf.feed_str(&text);
                }
                Step::Charset(c) if rf.st != crate::spec::recog::St::Ground && matches!(c.as_str(), "@" | "G" | "8") => {
                    // which mode governs a sequence that straddles a switch is unspecified
                    cov.hit("stop_parser_path_switch_inside_a_sequence");
                    return Ok(());
                }
                Step::Charset(c) => match c.as_str() {
                    "@" => {
                        if !dec.pending.is_empty() {
                            cov.hit("stop_parser_path_switch_with_pending_tail");
                            return Ok(());
                        }
                        rf.utf8 = false;
                        fresh = true;
                        if !seg_ok(&seg_bytes) {
                            cov.hit("stop_parser_path_ill_formed_utf8");
                            return Ok(());
                        }
                        seg_bytes.clear();
                    }
                    "G" | "8" => rf.utf8 = true,
                    _ => {}
                },
                _ => {}
            }
            if rf.stopped_at.is_some() {
                cov.hit("stop_parser_path_unspecified_grammar");
                return Ok(());
            }
        }
        if !seg_ok(&seg_bytes) {
            cov.hit("stop_parser_path_ill_formed_utf8");
            return Ok(());
        }
        let want: Vec<Op> = normalise(&rf.events.iter().filter(|e| owns(e)).cloned().collect::<Vec<_>>());
        variants.push(want);
        if !bom_seen {
            break;
        }
    }
    let got = normalise(delivered);
    cov.hit("parser_path_runs_judged");
    cov.add("parser_path_events_expected", variants[0].len() as u64);
    if variants.iter().any(|v| *v == got) {
        return Ok(());
    }
    let want = &variants[0];
    let i = (0..want.len().max(got.len())).find(|i| want.get(*i) != got.get(*i)).unwrap_or(0);
    let tag = want.get(i).or(got.get(i)).map(|o| o.name()).unwrap_or("none");
    Err(Violation::new(
        prop,
        format!("{}/parser_path/{}", prop, tag),
        format!(
            "event #{} of the operations this property owns, as delivered by the parser: the documented grammar gives {:?}, the parser delivered {:?} ({} expected, {} delivered; initial mode {})",
            i,
            want.get(i),
            got.get(i),
            want.len(),
            got.len(),
            if trace.utf8 { "UTF-8" } else { "8-bit" }
        ),
        i as u64,
    ))
}

/// a UTF-8 mode segment is judged only if it is well-formed (an incomplete tail at its very end
/// is held back by any conforming decoder and is fine)
fn seg_ok(bytes: &[u8]) -> bool {
    match std::str::from_utf8(bytes) {
        Ok(_) => true,
        Err(e) => e.error_len().is_none(),
    }
}

fn save_snaps(s: &Screen) -> Vec<crate::snap::SaveSnap> {
    s.savepoints
        .iter()
        .map(|p| crate::snap::SaveSnap {
            x: p.cursor.x,
            y: p.cursor.y,
            attr: p.cursor.attr.clone(),
            hidden: p.cursor.hidden,
            g0: p.g0_charset,
            g1: p.g1_charset,
            charset: if p.charset == Charset::G0 { 0 } else { 1 },
            origin: p.origin,
            wrap: p.wrap,
        })
        .collect()
}

impl<'a> StepObs<'a> {
    fn c14_shadow(&mut self, ctx: &StepCtx, low: &Op) -> Result<(), Violation> {
        match low {
            Op::SaveCursor => {
                // ctx.pre is valid here (owned operation): push what DECSC must have captured
                let p = ctx.pre;
                self.shadow.push(crate::snap::SaveSnap {
                    x: p.x,
                    y: p.y,
                    attr: p.attr.clone(),
                    hidden: p.hidden,
                    g0: p.g0,
                    g1: p.g1,
                    charset: p.charset,
                    origin: p.has(memterm::modes::DECOM),
                    wrap: p.has(memterm::modes::DECAWM),
                });
            }
            Op::RestoreCursor => {
                self.shadow.pop();
            }
            _ => {}
        }
        let real = save_snaps(ctx.screen);
        if real != self.shadow {
            let what = if real.len() != self.shadow.len() {
                format!("depth {} but {} saves are outstanding", real.len(), self.shadow.len())
            } else {
                let i = (0..real.len()).find(|i| real[*i] != self.shadow[*i]).unwrap_or(0);
                format!(
                    "entry {} (0 = oldest) is now cursor (x={},y={}) {} but was saved as (x={},y={}) {}",
                    i,
                    real[i].x,
                    real[i].y,
                    crate::snap::cell_str(&real[i].attr),
                    self.shadow[i].x,
                    self.shadow[i].y,
                    crate::snap::cell_str(&self.shadow[i].attr)
                )
            };
            // keep following the real stack so that one defect is reported once
            self.shadow = real;
            return Err(Violation::new(
                "C14",
                format!("C14/stack_changed_by/{}", low.name()),
                format!("the saved-cursor stack after {:?}: {}", ctx.op, what),
                ctx.idx,
            ));
        }
        Ok(())
    }
}

/// screen copy with identity G0/G1 (for the translation twin)
fn identity_copy(s: &Screen) -> Screen {
    let mut c = clone_screen(s);
    c.g0_charset = tables::lat1();
    c.g1_charset = tables::lat1();
    c.charset = Charset::G0;
    c
}

impl<'a> Observer for StepObs<'a> {
    fn needs_snap(&self, _actor: Actor, op: &Op, screen: &Screen) -> bool {
        let low = op.lower();
        if !(self.sp.owns)(&low) {
            return false;
        }
        // conditional ownership of draw: decided on the live screen so that the common case
        // costs no snapshot
        if let Op::Draw(t) = &low {
            if self.sp.id == "C13" {
                return screen.mode.contains(&memterm::modes::IRM);
            }
            if self.sp.id == "C12" {
                return screen.mode.contains(&memterm::modes::IRM)
                    || screen.cursor.x as u64 + 2 * t.chars().count() as u64 >= screen.columns as u64;
            }
            if self.sp.id == "C06" {
                let bottom = screen.margins.map(|m| m.bottom).unwrap_or(screen.lines.saturating_sub(1));
                let reach = screen.cursor.x as u64 + 2 * t.chars().count() as u64;
                return screen.mode.contains(&memterm::modes::DECAWM)
                    && reach > screen.columns as u64
                    && screen.cursor.y <= bottom
                    && screen.cursor.y as u64 + reach / (screen.columns.max(1) as u64) >= bottom as u64;
            }
        }
        if self.sp.id == "C12" && matches!(low, Op::Linefeed) {
            return screen.mode.contains(&memterm::modes::LNM);
        }
        true
    }
    fn before(&mut self, _idx: u64, actor: Actor, op: &Op, screen: &Screen) {
        self.have_snap = self.needs_snap(actor, op, screen);
    }
    fn init(&mut self, screen: &Screen, snap: &Snapshot) -> Result<(), Violation> {
        if self.sp.id == "C18" {
            let want: std::collections::BTreeSet<u32> = (1..).map(|k| k * 8).take_while(|x| *x < snap.columns).collect();
            let got: std::collections::BTreeSet<u32> = snap.tabstops.iter().copied().filter(|t| *t < snap.columns).collect();
            if want != got {
                return Err(Violation::new(
                    "C18",
                    "C18/initial_tab_stops",
                    format!("a new {}-column screen must have stops at every 8th column {:?}; found {:?}", snap.columns, want, got),
                    0,
                ));
            }
        }
        if self.sp.id == "C20" {
            self.twin = Some(identity_copy(screen));
            if snap.g0 != tables::lat1() || snap.g1 != tables::vt100() || snap.charset != 0 {
                return Err(Violation::new(
                    "C20",
                    "C20/initial_charsets",
                    format!(
                        "a new screen must start with G0 = Latin-1, G1 = DEC Special Graphics, G0 selected; found G0 {} G1 {} selected G{}",
                        ["Latin-1", "DEC graphics", "CP437", "VAX42", "?", "?", "?", "?", "?", "other"][which_table(&snap.g0) as usize],
                        ["Latin-1", "DEC graphics", "CP437", "VAX42", "?", "?", "?", "?", "?", "other"][which_table(&snap.g1) as usize],
                        snap.charset
                    ),
                    0,
                ));
            }
        }
        Ok(())
    }
    fn step(&mut self, ctx: &StepCtx) -> Result<(), Violation> {
        let low = ctx.op.lower();
        // C20 translation twin: every operation also goes to the identity-table twin
        let mut twin_draw: Option<(String, u64)> = None;
        if let Some(tw) = self.twin.as_mut() {
            match &low {
                Op::DefineCharset(..) | Op::ShiftIn | Op::ShiftOut => {}
                Op::Draw(text) => {
                    let table = if ctx.pre.charset == 1 { &ctx.pre.g1 } else { &ctx.pre.g0 };
                    let ti = which_table(table);
                    if ti == 9 {
                        // an installed table that equals no reference is DEFINE's finding
                        self.cov.hit("stop_unknown_table_installed");
                        self.twin = None;
                    } else {
                        let reft = tables::table(["B", "0", "U", "V"][ti as usize]).unwrap();
                        let translated: String =
                            text.chars().map(|c| if (c as u32) < 256 { reft[c as usize] } else { c }).collect();
                        Op::Draw(translated.clone()).apply(tw);
                        twin_draw = Some((translated, ti));
                    }
                }
                _ => ctx.op.apply(tw),
            }
            if let Some(tw) = self.twin.as_mut() {
                tw.g0_charset = tables::lat1();
                tw.g1_charset = tables::lat1();
                tw.charset = Charset::G0;
            }
        }
        if self.sp.id == "C14" {
            self.c14_shadow(ctx, &low)?;
        }
        if !(self.sp.owns)(&low) {
            return Ok(());
        }
        if ctx.actor == Actor::Feeder {
            self.parser_events.push(low.clone());
        }
        if !self.have_snap {
            // conditionally owned draw that does not meet the condition: no snapshot was taken
            return Ok(());
        }
        // C13 owns draw only in insert mode (the implicit ICH)
        if self.sp.id == "C13" {
            if let Op::Draw(_) = &low {
                if !ctx.pre.has(memterm::modes::IRM) {
                    return Ok(());
                }
                self.cov.hit("probe_insert_mode_draw_judged");
            }
        }
        // C12 owns draw where the mode set decides the outcome, and LF under LNM
        if self.sp.id == "C12" {
            match &low {
                Op::Draw(t) => {
                    let p = ctx.pre;
                    if !(p.has(memterm::modes::IRM) || p.x as u64 + 2 * t.chars().count() as u64 >= p.columns as u64) {
                        return Ok(());
                    }
                    self.cov.hit("probe_mode_governed_draw_judged");
                }
                Op::Linefeed => {
                    if !ctx.pre.has(memterm::modes::LNM) {
                        return Ok(());
                    }
                    self.cov.hit("probe_lnm_linefeed_judged");
                }
                _ => {}
            }
        }
        // C06 owns draw only where it scrolls (autowrap at the bottom margin)
        if self.sp.id == "C06" {
            if let Op::Draw(t) = &low {
                // cheap necessary condition first: the text must be able to reach the bottom margin
                let p = ctx.pre;
                let reach = p.x as u64 + 2 * t.chars().count() as u64;
                let can_scroll = p.has(memterm::modes::DECAWM)
                    && reach > p.columns as u64
                    && p.y as u64 + reach / (p.columns.max(1) as u64) >= p.region().1 as u64
                    && p.y <= p.region().1;
                if !can_scroll {
                    return Ok(());
                }
                let e = model::expect(ctx.pre, ctx.op);
                if !e.scrolled {
                    return Ok(());
                }
                self.cov.hit("probe_autowrap_scroll_judged");
            }
        }
        self.judged += 1;
        self.reach(&low, ctx.pre);
        if ctx.actor == Actor::Feeder {
            self.cov.hit(&format!("judged_via_parser_{}", low.name()));
        } else {
            self.cov.hit(&format!("judged_via_api_{}", low.name()));
        }
        // C20 judges draw by the translation twin only (placement is C04's)
        if self.sp.id == "C20" {
            if let Op::Draw(text) = &low {
                let (Some(tw), Some((translated, ti))) = (self.twin.as_ref(), twin_draw) else { return Ok(()) };
                let mut ts = Snapshot::take_from(tw, self.twin_prev.as_ref());
                ts.g0 = ctx.post.g0;
                ts.g1 = ctx.post.g1;
                ts.charset = ctx.post.charset;
                let d = ctx.post.diff(&ts, &["dirty", "savepoint_contents"]);
                self.twin_prev = Some(ts);
                if let Some(d) = d {
                    return Err(Violation::new(
                        self.sp.id,
                        format!("{}/draw/translation", self.sp.id),
                        format!(
                            "draw({:?}) with G{} active ({}): result differs from drawing the reference translation {:?} on a screen with identity tables: {}",
                            text,
                            ctx.pre.charset,
                            ["Latin-1", "DEC graphics", "CP437", "VAX42"][ti as usize],
                            translated,
                            d
                        ),
                        ctx.idx,
                    ));
                }
                return Ok(());
            }
        }
        let e = model::expect(ctx.pre, ctx.op);
        for l in &e.lenient {
            self.cov.hit(l);
        }
        if let Some(d) = model::judge(&e, ctx.post) {
            return Err(Violation::new(
                self.sp.id,
                format!("{}/{}/post_state", self.sp.id, low.name()),
                format!(
                    "{:?} from cursor (x={},y={}) size {}x{} margins {:?}: {}",
                    ctx.op, ctx.pre.x, ctx.pre.y, ctx.pre.columns, ctx.pre.lines, ctx.pre.margins, d
                ),
                ctx.idx,
            ));
        }
        Ok(())
    }
}

impl Property for StepProp {
    fn id(&self) -> &'static str {
        self.id
    }
    fn level(&self) -> &'static str {
        "exploration"
    }
    fn rule(&self) -> &'static str {
        self.rule
    }
    fn assumptions(&self) -> Vec<&'static str> {
        vec![
            "reference semantics = DESIGN.md 8.3 with the leniencies of 8.4; re-anchored on the real pre-state at every step",
            "unicode-width and unicode-normalization are trusted (shared by oracle and implementation)",
            "wiring Q sequentialisation argument of DESIGN.md 2.2",
            "operations owned by other properties are not judged; a panic in one of them aborts the run as a foreign failure",
        ]
    }
    fn runs(&self, tier: Tier) -> u64 {
        match tier {
            Tier::Quick => self.quick_runs,
            Tier::Thorough => self.thorough_runs,
        }
    }
    fn generate(&self, seed: u64, index: u64, _tier: Tier) -> Trace {
        let mut r = Rng::new(seed ^ index.wrapping_mul(0xA24B_AED4_963E_E407)).fork(self.id);
        let mut p = Profile::base(*r.pick(self.focus));
        (self.tune)(&mut p, &mut r);
        let mut t = gen::trace(self.id, seed, index, &p);
        if self.id == "C16" && t.bytes_total() <= gen::bound(40) && t.columns * t.lines <= 600 && t.steps.len() <= gen::bound(60) && r.chance(1, 4) {
            // fault-point enumeration: one more resize at EVERY operation boundary of this history
            let g = gen::Geo { cols: t.columns, lines: t.lines };
            let (l, c) = gen::resize_target(&mut r, g, g);
            t.extra = vec![u32::MAX, l, c];
        }
        t
    }
    fn check(&self, trace: &Trace, cov: &mut Coverage) -> Result<(), Violation> {
        // C16: an extra resize injected at one (extra = [1,k,l,c]) or at every (extra = [MAX,l,c])
        // operation boundary
        let one: Vec<(u64, Op)> = match trace.extra.as_slice() {
            [1, k, l, c] if *l >= 1 && *c >= 1 => vec![(*k as u64, Op::Resize(Some(*l), Some(*c)))],
            _ => vec![],
        };
        let mut obs = StepObs { sp: self, cov, judged: 0, twin: None, twin_prev: None, parser_events: vec![], have_snap: true, shadow: vec![] };
        let stats = exec::run_q_inject(trace, &mut obs, &one).map(|x| x.0)?;
        let judged = obs.judged;
        if let [u32::MAX, l, c] = trace.extra.as_slice() {
            if *l >= 1 && *c >= 1 {
                for k in 0..=stats.own_ops.min(gen::bound(48) as u64) {
                    let inj = vec![(k, Op::Resize(Some(*l), Some(*c)))];
                    let mut scratch = Coverage::default();
                    let mut o2 = StepObs {
                        sp: self,
                        cov: &mut scratch,
                        judged: 0,
                        twin: None,
                        twin_prev: None,
                        parser_events: vec![],
                        have_snap: true,
                        shadow: vec![],
                    };
                    obs.cov.hit("resize_positions_enumerated");
                    exec::run_q_inject(trace, &mut o2, &inj).map(|x| x.0).map_err(|mut v| {
                        let mut t = trace.clone();
                        t.extra = vec![1, k as u32, *l, *c];
                        v.concrete = Some(Box::new(t));
                        v
                    })?;
                }
            }
        }
        let delivered = std::mem::take(&mut obs.parser_events);
        parser_path(self.id, trace, &delivered, self.owns, cov)?;
        cov.add("atomic_steps", stats.ops);
        cov.add("operations_judged", judged);
        cov.add("bytes_fed", stats.bytes);
        cov.add("foreign_steps", stats.foreign);
        cov.add("foreign_steps_between_queued_events", stats.midchunk_foreign);
        if judged > 0 {
            cov.hit("runs_with_judged_operation");
        }
        cov.nontrivial = Some(judged > 0);
        for h in &stats.state_hashes {
            cov.states.add(*h);
        }
        cov.interleavings.add(stats.schedule_sig);
        if stats.hidden_cells_seen {
            cov.hit("probe_hidden_cells_present");
        }
        Ok(())
    }
    fn owns_panic(&self, op: &str) -> bool {
        // op is the lowered leaf name recorded by the executor
        let probe: Vec<Op> = vec![
            Op::Draw(String::new()),
            Op::CursorUp(None),
            Op::CursorDown(None),
            Op::CursorForward(None),
            Op::CursorBack(None),
            Op::CursorDown1(None),
            Op::CursorUp1(None),
            Op::CursorToColumn(None),
            Op::CursorToLine(None),
            Op::CursorPosition(None, None),
            Op::Backspace,
            Op::CarriageReturn,
            Op::Index,
            Op::Linefeed,
            Op::ReverseIndex,
            Op::InsertLines(None),
            Op::DeleteLines(None),
            Op::SetMargins(None, None),
            Op::EraseInDisplay(None),
            Op::EraseInLine(None),
            Op::EraseCharacters(None),
            Op::Sgr(vec![]),
            Op::SetMode(vec![], false),
            Op::ResetMode(vec![], false),
            Op::InsertCharacters(None),
            Op::DeleteCharacters(None),
            Op::SaveCursor,
            Op::RestoreCursor,
            Op::Resize(None, None),
            Op::Tab,
            Op::SetTabStop,
            Op::ClearTabStop(None),
            Op::DefineCharset(String::new(), String::new()),
            Op::ShiftIn,
            Op::ShiftOut,
        ];
        probe.iter().any(|o| o.name() == op && (self.owns)(o))
    }
}
