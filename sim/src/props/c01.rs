//! C01 No input can crash, hang or wedge the emulator (DESIGN 7, grade A).

use crate::cov::Coverage;
use crate::exec::{self, Observer, StepCtx};
use crate::gen::{self, Focus, Profile};
use crate::ops::Op;
use crate::prng::Rng;
use crate::props::{Property, Tier};
use crate::snap::Snapshot;
use crate::trace::{Front, Step, Trace, Violation, Wiring};
use memterm::screen::Screen;

pub struct C01;

/// BEL CAN BEL CAN reaches the ground state from every recogniser state and flushes any
/// pending UTF-8 tail; ESC c then resets and `A` must land in cell (0,0).
pub const PROBE: &[u8] = b"\x07\x18\x07\x18\x1bcA";

struct Obs {
    steps: u64,
}

impl Observer for Obs {
    fn needs_snap(&self, _a: exec::Actor, _op: &Op, _s: &Screen) -> bool {
        false
    }
    fn step(&mut self, _ctx: &StepCtx) -> Result<(), Violation> {
        self.steps += 1;
        Ok(())
    }
    fn end(&mut self, _screen: &Screen, snap: &Snapshot) -> Result<(), Violation> {
        let got = snap.grid.first().and_then(|r| r.first()).map(|c| c.data.clone());
        if got.as_deref() != Some("A") {
            return Err(Violation::new(
                "C01",
                "C01/wedged/probe_not_processed",
                format!(
                    "after the run, feeding BEL CAN BEL CAN ESC c 'A' must put 'A' into cell (0,0); found {:?} - further input is no longer processed normally",
                    got
                ),
                self.steps,
            ));
        }
        Ok(())
    }
}

pub fn profile(r: &mut Rng) -> Profile {
    let mut p = Profile::base(Focus::Any);
    p.kinds = [30, 10, 20, 25, 8, 7];
    p.corrupt_pct = 70;
    p.wiring_p_pct = 70;
    p.renderer_pct = 60;
    p.resizer_pct = 50;
    p.operator_pct = 50;
    p.eightbit_pct = 30;
    p.switch_pct = 15;
    p.chars_pct = 8;
    p.small_geo_pct = 65;
    p.big_permille = 4;
    p.focus = *r.pick(&[
        Focus::Any,
        Focus::Any,
        Focus::Any,
        Focus::Text,
        Focus::Movement,
        Focus::Scroll,
        Focus::Erase,
        Focus::InsDel,
        Focus::Modes,
        Focus::Resize,
        Focus::Utf8,
        Focus::Osc,
        Focus::Tabs,
        Focus::SaveRestore,
    ]);
    p
}

impl Property for C01 {
    fn id(&self) -> &'static str {
        "C01"
    }
    fn level(&self) -> &'static str {
        "exploration"
    }
    fn rule(&self) -> &'static str {
        "one case = one seeded run: a generated session (grammar/text/editor/byte-soup/captured/charset-sweep) pushed through the Line (cut, empty_read, bit_flip, byte_subst, byte_drop, byte_dup, noise_burst, truncate, restart) into the real ByteParser/Parser+Screen (wiring P, or Q for operator storms) with Renderer/Resizer/Operator steps interleaved; truncation enumerated at every byte for sessions <= 48 bytes (extra=[1]). Non-trivial = at least one chunk was fed or one API call made; distinct = distinct hash of (delivered steps, geometry, mode, wiring)"
    }
    fn assumptions(&self) -> Vec<&'static str> {
        vec![
            "allocation failure is out of scope (aborts by design)",
            "geometries up to 140x40 (3 % of the non-small runs up to 300x129) plus the 132-column DECCOLM switch; API arguments absent or 0..=9999; resize >= 1x1",
            "hangs are detected by the parent's 20 s per-run watchdog",
            "built with overflow-checks and debug-assertions on",
        ]
    }
    fn runs(&self, tier: Tier) -> u64 {
        match tier {
            Tier::Quick => 400_000,
            Tier::Thorough => 10_000_000,
        }
    }
    fn generate(&self, seed: u64, index: u64, _tier: Tier) -> Trace {
        let mut r = Rng::new(seed ^ index.wrapping_mul(0xA24B_AED4_963E_E407)).fork("c01-profile");
        let p = profile(&mut r);
        let mut t = if r.chance(1, 8) {
            // operator storm: pure API sequences
            let g = gen::geometry(&mut r, 70);
            let n = r.range(1, 40);
            let mut cur = g;
            let mut steps = Vec::new();
            for _ in 0..n {
                match r.below(12) {
                    0 => {
                        let (l, c) = gen::resize_target(&mut r, g, cur);
                        cur = gen::Geo { cols: c, lines: l };
                        steps.push(Step::Resize(l, c));
                    }
                    1 => steps.push(Step::Display),
                    2 => steps.push(Step::Paint),
                    _ => steps.push(Step::Api(gen::api_op(&mut r, cur, p.focus))),
                }
            }
            Trace {
                prop: "C01".into(),
                seed,
                index,
                kind: "OperatorStorm".into(),
                columns: g.cols,
                lines: g.lines,
                front: Front::Bytes,
                utf8: true,
                wiring: Wiring::Q,
                steps,
                extra: vec![],
                faults: vec![],
            }
        } else {
            gen::trace("C01", seed, index, &p)
        };
        if t.bytes_total() <= gen::bound(48) && t.bytes_total() > 0 && t.steps.len() <= gen::bound(80) && r.chance(1, 4) {
            t.extra = vec![1]; // enumerate truncation at every byte
        }
        t
    }

    fn check(&self, trace: &Trace, cov: &mut Coverage) -> Result<(), Violation> {
        let run_one = |t: &Trace, cov: &mut Coverage| -> Result<(), Violation> {
            let mut t2 = t.clone();
            t2.steps.push(Step::Apply(1_000_000));
            t2.steps.push(Step::Display);
            t2.steps.push(Step::Feed(PROBE.to_vec()));
            t2.steps.push(Step::Apply(1_000_000));
            t2.steps.push(Step::Display);
            let mut obs = Obs { steps: 0 };
            let stats = exec::run(&t2, &mut obs)?;
            cov.add("atomic_steps", stats.ops);
            cov.add("bytes_fed", stats.bytes);
            cov.add("chunks", stats.chunks);
            cov.add("foreign_steps", stats.foreign);
            for h in &stats.state_hashes {
                cov.states.add(*h);
            }
            cov.interleavings.add(stats.schedule_sig);
            if stats.hidden_cells_seen {
                cov.hit("probe_hidden_cells_present");
            }
            Ok(())
        };
        for s in &trace.steps {
            if let Step::Api(op) = s {
                cov.hit(&format!("api_{}", op.name()));
            }
        }
        if matches!(trace.wiring, Wiring::P) {
            cov.hit("runs_wiring_p");
        } else {
            cov.hit("runs_wiring_q");
        }
        run_one(trace, cov)?;
        if trace.extra.first() == Some(&1) {
            // fault enumeration: the program dies after every possible byte
            let total = trace.bytes_total();
            for k in 0..total {
                let mut t = trace.clone();
                t.extra.clear();
                let mut left = k;
                let mut steps = Vec::new();
                for s in &trace.steps {
                    match s {
                        Step::Feed(b) => {
                            if left == 0 {
                                continue;
                            }
                            let take = left.min(b.len());
                            steps.push(Step::Feed(b[..take].to_vec()));
                            left -= take;
                        }
                        o => steps.push(o.clone()),
                    }
                }
                t.steps = steps;
                cov.hit("truncation_points_enumerated");
                run_one(&t, cov).map_err(|mut v| {
                    v.concrete = Some(Box::new(t.clone()));
                    v
                })?;
            }
        }
        Ok(())
    }
}

#[allow(dead_code)]
fn _unused(_: Op) {}
