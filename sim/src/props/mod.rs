//! Property registry. Each property = generator (seed -> Trace) + oracle (Trace -> verdict).

use crate::cov::Coverage;
use crate::exec;
use crate::trace::{Trace, Violation};

pub mod c01;
pub mod c02;
pub mod inv;
pub mod steps;
pub mod stream;

#[derive(Clone, Copy, Debug, PartialEq, Eq)]
pub enum Tier {
    Quick,
    Thorough,
}

impl Tier {
    pub fn name(&self) -> &'static str {
        match self {
            Tier::Quick => "quick",
            Tier::Thorough => "thorough",
        }
    }
}

pub trait Property: Sync + Send {
    fn id(&self) -> &'static str;
    /// "exploration" or "fault_enumeration"
    fn level(&self) -> &'static str;
    fn rule(&self) -> &'static str;
    fn assumptions(&self) -> Vec<&'static str>;
    fn runs(&self, tier: Tier) -> u64;
    fn generate(&self, seed: u64, index: u64, tier: Tier) -> Trace;
    /// Execute the trace against the real code and evaluate the oracle.
    fn check(&self, trace: &Trace, cov: &mut Coverage) -> Result<(), Violation>;
    /// is a panic while `op` executes a violation of *this* property?
    fn owns_panic(&self, _op: &str) -> bool {
        false
    }
}

pub fn all() -> Vec<Box<dyn Property>> {
    let mut v: Vec<Box<dyn Property>> = vec![
        Box::new(c01::C01),
        Box::new(c02::C02),
        Box::new(inv::C09),
        Box::new(inv::C10),
        Box::new(inv::C15),
        Box::new(inv::C17),
        Box::new(stream::C03),
        Box::new(stream::C11),
        Box::new(stream::C19),
    ];
    for sp in steps::STEP_PROPS {
        v.push(Box::new(StepRef(sp)));
    }
    v
}

/// registry handle for a static StepProp
pub struct StepRef(pub &'static steps::StepProp);
impl Property for StepRef {
    fn id(&self) -> &'static str {
        self.0.id()
    }
    fn level(&self) -> &'static str {
        self.0.level()
    }
    fn rule(&self) -> &'static str {
        Property::rule(self.0)
    }
    fn assumptions(&self) -> Vec<&'static str> {
        self.0.assumptions()
    }
    fn runs(&self, tier: Tier) -> u64 {
        self.0.runs(tier)
    }
    fn generate(&self, seed: u64, index: u64, tier: Tier) -> Trace {
        self.0.generate(seed, index, tier)
    }
    fn check(&self, trace: &Trace, cov: &mut Coverage) -> Result<(), Violation> {
        self.0.check(trace, cov)
    }
    fn owns_panic(&self, op: &str) -> bool {
        self.0.owns_panic(op)
    }
}

pub fn by_id(id: &str) -> Option<Box<dyn Property>> {
    all().into_iter().find(|p| p.id() == id)
}

pub enum Outcome {
    Held,
    Violated(Violation),
    /// a different property failed first (e.g. a panic in an operation this property does not
    /// judge); the run cannot be continued and is not a violation of this property
    Foreign(String),
}

/// check() under catch_unwind, with panics attributed as described in DESIGN 6.
pub fn check_guarded(p: &dyn Property, trace: &Trace, cov: &mut Coverage) -> Outcome {
    // Domain guard (matters for minimisation, which deletes bytes): the character front end
    // takes Strings, so every chunk of a Front::Chars trace must be valid UTF-8.
    if trace.front == crate::trace::Front::Chars {
        for s in &trace.steps {
            if let crate::trace::Step::Feed(b) = s {
                if std::str::from_utf8(b).is_err() {
                    return Outcome::Held;
                }
            }
        }
    }
    exec::set_current_op("");
    match exec::guarded(|| p.check(trace, cov)) {
        Ok(Ok(())) => Outcome::Held,
        Ok(Err(v)) => Outcome::Violated(v),
        Err(msg) => {
            let op = exec::current_op();
            let loc0 = msg.rsplit(" @ ").next().unwrap_or("?");
            if loc0.starts_with("src/") || loc0.contains("/verif/sim/") {
                // a bug in the harness itself: never a property violation
                return Outcome::Foreign(format!("HARNESS: {}", msg));
            }
            if p.id() == "C01" || p.owns_panic(&op) {
                let loc = msg.rsplit(" @ ").next().unwrap_or("?").to_owned();
                let short = loc.rsplit('/').next().unwrap_or(&loc).to_owned();
                Outcome::Violated(Violation::new(
                    p.id(),
                    format!("{}/panic/{}/{}", p.id(), if op.is_empty() { "feed" } else { &op }, short),
                    format!("panic during {}: {}", if op.is_empty() { "feed" } else { &op }, msg),
                    0,
                ))
            } else {
                Outcome::Foreign(format!("panic during {}: {}", op, msg))
            }
        }
    }
}
