//! Model-free invariant and twin-screen properties: C09 (well-formed state), C10 (display()
//! faithful and side-effect free), C15 (RIS == power-on state), C17 (dirty covers changes).

use std::rc::Rc;

use crate::cov::Coverage;
use crate::exec::{self, Actor, Observer, StepCtx};
use crate::gen::{self, Focus, Profile};
use crate::ops::Op;
use crate::prng::Rng;
use crate::props::{Property, Tier};
use crate::snap::{clone_screen, Cell, Snapshot};
use crate::spec::model::COLOR_NAMES;
use crate::trace::{Step, Trace, Violation};
use memterm::modes::DECSCNM;
use memterm::parser_listener::ParserListener;
use memterm::screen::Screen;

fn common_cov(cov: &mut Coverage, stats: &exec::RunStats) {
    cov.add("atomic_steps", stats.ops);
    cov.add("bytes_fed", stats.bytes);
    cov.add("foreign_steps", stats.foreign);
    cov.add("foreign_steps_between_queued_events", stats.midchunk_foreign);
    for h in &stats.state_hashes {
        cov.states.add(*h);
    }
    cov.interleavings.add(stats.schedule_sig);
    if stats.hidden_cells_seen {
        cov.hit("probe_hidden_cells_present");
    }
}

// ======================================================================================= C09

pub struct C09;

fn colour_ok(c: &str) -> bool {
    COLOR_NAMES.contains(&c) || (!c.is_empty() && c.chars().all(|ch| ch.is_ascii_hexdigit()))
}

fn well_formed(s: &Snapshot, screen: &Screen, with_display: bool, at: u64, what: &str) -> Result<(), Violation> {
    let v = |class: &str, d: String| Err(Violation::new("C09", format!("C09/{}", class), format!("after {}: {}", what, d), at));
    if s.lines == 0 || s.columns == 0 {
        return v("size", format!("screen size {}x{}", s.columns, s.lines));
    }
    if s.y >= s.lines {
        return v("cursor_y", format!("cursor.y = {} with {} lines", s.y, s.lines));
    }
    if s.x > s.columns {
        return v("cursor_x", format!("cursor.x = {} with {} columns", s.x, s.columns));
    }
    if let Some((t, b)) = s.margins {
        if !(t < b && b <= s.lines - 1) {
            return v("margins", format!("margins ({},{}) with {} lines", t, b, s.lines));
        }
    }
    if let Some(d) = s.dirty.iter().find(|d| **d >= s.lines) {
        return v("dirty_index", format!("dirty contains row {} but the screen has {} lines", d, s.lines));
    }
    for (y, row) in s.grid.iter().enumerate() {
        for (x, c) in row.iter().enumerate() {
            if !colour_ok(&c.fg) || !colour_ok(&c.bg) {
                return v("colour", format!("cell(y={},x={}) has fg={:?} bg={:?}", y, x, c.fg, c.bg));
            }
        }
    }
    if !colour_ok(&s.attr.fg) || !colour_ok(&s.attr.bg) {
        return v("colour", format!("cursor rendition has fg={:?} bg={:?}", s.attr.fg, s.attr.bg));
    }
    if with_display {
        let mut copy = clone_screen(screen);
        let d = copy.display();
        if d.len() != s.lines as usize {
            return v("display_rows", format!("display() returned {} strings for {} lines", d.len(), s.lines));
        }
    }
    Ok(())
}

struct Obs09<'a> {
    cov: &'a mut Coverage,
    big: bool,
}

impl<'a> Observer for Obs09<'a> {
    fn init(&mut self, screen: &Screen, snap: &Snapshot) -> Result<(), Violation> {
        well_formed(snap, screen, true, 0, "construction")
    }
    fn step(&mut self, ctx: &StepCtx) -> Result<(), Violation> {
        let with_display = if self.big { ctx.idx % 16 == 0 } else { ctx.idx % 3 == 0 };
        if ctx.post.x == ctx.post.columns {
            self.cov.hit("probe_cursor_in_pending_wrap_column");
        }
        if ctx.post.margins.is_some() {
            self.cov.hit("probe_state_with_region");
        }
        if matches!(ctx.op.lower(), Op::Resize(..)) {
            self.cov.hit("probe_resize_steps");
        }
        well_formed(ctx.post, ctx.screen, with_display, ctx.idx, &format!("{:?}", ctx.op))
    }
}

fn any_focus(r: &mut Rng) -> Focus {
    *r.pick(&[
        Focus::Any,
        Focus::Any,
        Focus::Text,
        Focus::Movement,
        Focus::Scroll,
        Focus::Erase,
        Focus::Sgr,
        Focus::Modes,
        Focus::InsDel,
        Focus::SaveRestore,
        Focus::Resize,
        Focus::Tabs,
    ])
}

/// For short sessions: a resize enumerated at every event boundary is expressed as separate
/// traces (one per boundary); here we only place them with the scheduler and rely on the batch.
impl Property for C09 {
    fn id(&self) -> &'static str {
        "C09"
    }
    fn level(&self) -> &'static str {
        "exploration"
    }
    fn rule(&self) -> &'static str {
        "one case = one seeded wiring-Q run with all actors and all fault kinds (byte input, direct API calls with arguments absent or 0..=9999, resizes incl. DECCOLM at arbitrary event boundaries); the well-formedness invariant (cursor, margins, dirty indices, display() row count on a copy, colour strings) is evaluated after construction and after every atomic step. Non-trivial = at least one step; distinct = distinct (steps, geometry, mode) hash"
    }
    fn assumptions(&self) -> Vec<&'static str> {
        vec![
            "display() is called on a harness-side copy rebuilt from the public fields (after construction, then every 3rd step on small screens, every 16th on screens > 600 cells)",
            "hexadecimal colour = any non-empty string of hex digits (strictness is C08's job)",
        ]
    }
    fn runs(&self, tier: Tier) -> u64 {
        match tier {
            Tier::Quick => 400_000,
            Tier::Thorough => 8_000_000,
        }
    }
    fn generate(&self, seed: u64, index: u64, _tier: Tier) -> Trace {
        let mut r = Rng::new(seed ^ index.wrapping_mul(0xA24B_AED4_963E_E407)).fork("C09");
        let mut p = Profile::base(any_focus(&mut r));
        p.corrupt_pct = 50;
        p.resizer_pct = 70;
        p.operator_pct = 60;
        // a share of runs under the production wiring: anything the parser tells the screen
        // outside the recorded listener events is only visible there
        p.wiring_p_pct = 30;
        let mut t = gen::trace("C09", seed, index, &p);
        if t.wiring == crate::trace::Wiring::Q && t.bytes_total() <= gen::bound(40) && t.columns * t.lines <= 600 && t.steps.len() <= gen::bound(60) && r.chance(1, 4) {
            // fault-point enumeration: one more resize at EVERY operation boundary
            let g = gen::Geo { cols: t.columns, lines: t.lines };
            let (l, c) = gen::resize_target(&mut r, g, g);
            t.extra = vec![u32::MAX, l, c];
        }
        t
    }
    fn check(&self, trace: &Trace, cov: &mut Coverage) -> Result<(), Violation> {
        let big = trace.columns * trace.lines > 600;
        let one: Vec<(u64, Op)> = match trace.extra.as_slice() {
            [1, k, l, c] if *l >= 1 && *c >= 1 => vec![(*k as u64, Op::Resize(Some(*l), Some(*c)))],
            _ => vec![],
        };
        let mut obs = Obs09 { cov, big };
        if trace.wiring == crate::trace::Wiring::P {
            let stats = exec::run_p(trace, &mut obs).map(|x| x.0)?;
            common_cov(cov, &stats);
            cov.hit("runs_wiring_p");
            return Ok(());
        }
        let stats = exec::run_q_inject(trace, &mut obs, &one).map(|x| x.0)?;
        common_cov(cov, &stats);
        cov.hit("runs_wiring_q");
        if let [u32::MAX, l, c] = trace.extra.as_slice() {
            if *l >= 1 && *c >= 1 {
                for k in 0..=stats.own_ops.min(gen::bound(48) as u64) {
                    let inj = vec![(k, Op::Resize(Some(*l), Some(*c)))];
                    cov.hit("resize_positions_enumerated");
                    let mut o2 = Obs09 { cov: &mut Coverage::default(), big };
                    exec::run_q_inject(trace, &mut o2, &inj).map(|x| x.0).map_err(|mut v| {
                        let mut t = trace.clone();
                        t.extra = vec![1, k as u32, *l, *c];
                        v.concrete = Some(Box::new(t));
                        v
                    })?;
                }
            }
        }
        Ok(())
    }
    fn owns_panic(&self, _op: &str) -> bool {
        false
    }
}

// ======================================================================================= C10

pub struct C10;

struct Obs10<'a> {
    cov: &'a mut Coverage,
    /// screen B: same history plus display() calls at `points`
    twin: Screen,
    points: Vec<u32>,
    twin_prev: Option<Snapshot>,
}

fn check_display_faithful(screen: &Screen, at: u64, who: &str) -> Result<(), Violation> {
    let mut copy = clone_screen(screen);
    let before = Snapshot::take(&copy);
    let d = copy.display();
    let after = Snapshot::take(&copy);
    if let Some(diff) = before.diff(&after, &[]) {
        return Err(Violation::new(
            "C10",
            "C10/display_changes_state",
            format!("display() on {} changed the observable state: {}", who, diff),
            at,
        ));
    }
    let strict = before.render(true);
    let loose = before.render(false);
    if d != strict && d != loose {
        let row = (0..d.len().max(strict.len()))
            .find(|i| d.get(*i) != strict.get(*i) && d.get(*i) != loose.get(*i))
            .unwrap_or(0);
        return Err(Violation::new(
            "C10",
            "C10/display_unfaithful",
            format!(
                "display() row {} is {:?}, the grid renders as {:?}",
                row,
                d.get(row),
                strict.get(row)
            ),
            at,
        ));
    }
    Ok(())
}

impl<'a> Observer for Obs10<'a> {
    fn step(&mut self, ctx: &StepCtx) -> Result<(), Violation> {
        // apply the same operation to the twin, then maybe look at it
        ctx.op.apply(&mut self.twin);
        let interpose = self.points.contains(&(ctx.idx as u32));
        if interpose {
            let before = Snapshot::take(&self.twin);
            let shown = self.twin.display();
            let after = Snapshot::take(&self.twin);
            self.cov.hit("display_calls_interposed");
            if let Some(d) = before.diff(&after, &[]) {
                return Err(Violation::new(
                    "C10",
                    "C10/display_changes_state",
                    format!("display() after {:?} changed the observable state: {}", ctx.op, d),
                    ctx.idx,
                ));
            }
            let strict = before.render(true);
            let loose = before.render(false);
            if strict != loose {
                self.cov.hit("lenient_display_non_placeholder_after_wide");
            }
            if shown != strict && shown != loose {
                return Err(Violation::new(
                    "C10",
                    "C10/display_unfaithful",
                    format!("display() = {:?} but the grid renders as {:?}", shown, strict),
                    ctx.idx,
                ));
            }
        }
        if matches!(ctx.op, Op::Display | Op::Paint) {
            check_display_faithful(ctx.screen, ctx.idx, "the primary screen")?;
        }
        let tw = Snapshot::take_from(&self.twin, self.twin_prev.as_ref());
        let d = ctx.post.diff(&tw, &[]);
        self.twin_prev = Some(tw);
        if let Some(d) = d {
            return Err(Violation::new(
                "C10",
                "C10/display_changes_later_behaviour",
                format!(
                    "two runs of the same history that differ only in where display() was called diverge after {:?}: {} (left: without, right: with display() interposed)",
                    ctx.op, d
                ),
                ctx.idx,
            ));
        }
        // orphaned placeholders / wide chars in last column probes (sampled: it scans the grid)
        for row in ctx.post.grid.iter().filter(|_| ctx.idx % 16 == 0) {
            if row.iter().any(|c| c.data.is_empty()) {
                self.cov.hit("probe_grid_with_placeholder");
                break;
            }
        }
        Ok(())
    }
}

impl Property for C10 {
    fn id(&self) -> &'static str {
        "C10"
    }
    fn level(&self) -> &'static str {
        "fault_enumeration"
    }
    fn rule(&self) -> &'static str {
        "one case = one seeded wiring-Q history applied to two screens from one parser: screen A gets the history, screen B the same history plus display() calls at a seeded subset of operation boundaries; for histories <= 40 operations a separate twin is run for EVERY single insertion point (extra=[4294967295], sub-cases counted in insertion_points_enumerated). Oracles: display() == rendering recomputed from the grid; snapshot before == after display(); A == B after every common step. Distinct = distinct (steps, geometry, insertion points) hash"
    }
    fn assumptions(&self) -> Vec<&'static str> {
        vec![
            "model-free except for the 6-line rendering rule (DESIGN 8.3 DISPLAY); the cell after a wide lead may be skipped or shown when it is not a placeholder",
            "one parser feeds both screens, so recogniser and decoder state are identical by construction",
        ]
    }
    fn runs(&self, tier: Tier) -> u64 {
        match tier {
            Tier::Quick => 200_000,
            Tier::Thorough => 2_000_000,
        }
    }
    fn generate(&self, seed: u64, index: u64, _tier: Tier) -> Trace {
        let mut r = Rng::new(seed ^ index.wrapping_mul(0xA24B_AED4_963E_E407)).fork("C10");
        let mut p = Profile::base(*r.pick(&[
            Focus::Text,
            Focus::Text,
            Focus::InsDel,
            Focus::Scroll,
            Focus::Any,
            Focus::Erase,
            Focus::Resize,
        ]));
        p.kinds = [25, 30, 35, 3, 5, 2];
        p.corrupt_pct = 20;
        let mut t = gen::trace("C10", seed, index, &p);
        // the embedder may also clear the public dirty set at any time
        if r.chance(1, 3) {
            let k = r.range(1, 3);
            for _ in 0..k {
                let pos = r.below(t.steps.len() as u64 + 1) as usize;
                t.steps.insert(pos, Step::Api(Op::ClearDirty));
            }
        }
        // insertion points are operation indices; the number of operations is not known at
        // generation time, so draw from a generous range
        let upper = (t.bytes_total() as u64 + t.steps.len() as u64 + 2).min(600);
        if upper <= gen::bound(40) as u64 && r.chance(1, 2) {
            t.extra = vec![u32::MAX];
        } else {
            let k = r.range(1, 6);
            let mut pts: Vec<u32> = (0..k).map(|_| r.below(upper) as u32).collect();
            pts.sort();
            pts.dedup();
            t.extra = pts;
        }
        t
    }
    fn check(&self, trace: &Trace, cov: &mut Coverage) -> Result<(), Violation> {
        let run_with = |points: Vec<u32>, cov: &mut Coverage| -> Result<exec::RunStats, Violation> {
            let mut obs = Obs10 { cov, twin: Screen::new(trace.columns, trace.lines), points, twin_prev: None };
            exec::run_q(trace, &mut obs).map(|x| x.0)
        };
        if trace.extra.first() == Some(&u32::MAX) {
            // first run with no interposed call tells how many operations there are
            let stats = run_with(vec![], cov)?;
            common_cov(cov, &stats);
            for k in 0..stats.ops.min(gen::bound(60) as u64) as u32 {
                cov.hit("insertion_points_enumerated");
                run_with(vec![k], cov).map_err(|mut v| {
                    let mut t = trace.clone();
                    t.extra = vec![k];
                    v.concrete = Some(Box::new(t));
                    v
                })?;
            }
        } else {
            let stats = run_with(trace.extra.clone(), cov)?;
            common_cov(cov, &stats);
        }
        Ok(())
    }
    fn owns_panic(&self, op: &str) -> bool {
        op == "display" || op == "paint"
    }
}

// ======================================================================================= C15

pub struct C15;

struct Obs15<'a> {
    cov: &'a mut Coverage,
    twin: Option<Screen>,
    twin_prev: Option<Snapshot>,
    /// RIS events as the parser delivered them
    parser_resets: Vec<Op>,
    saw_ris: bool,
}

fn owns_reset(op: &Op) -> bool {
    *op == Op::Reset
}

impl<'a> Observer for Obs15<'a> {
    fn needs_snap(&self, _actor: Actor, op: &Op, _s: &Screen) -> bool {
        self.twin.is_some() || op.lower() == Op::Reset
    }
    fn step(&mut self, ctx: &StepCtx) -> Result<(), Violation> {
        let low = ctx.op.lower();
        if low == Op::Reset && ctx.actor == Actor::Feeder {
            self.parser_resets.push(Op::Reset);
        }
        if low == Op::Reset {
            // power-on state of the current dimensions
            let fresh = Screen::new(ctx.post.columns, ctx.post.lines);
            let fs = Snapshot::take(&fresh);
            self.saw_ris = true;
            self.cov.hit("ris_steps");
            if ctx.pre.savepoints.len() > 0 {
                self.cov.hit("probe_ris_with_savepoints");
            }
            if ctx.pre.saved_columns.is_some() {
                self.cov.hit("probe_ris_after_deccolm");
            }
            if let Some(d) = ctx.post.diff(&fs, &["savepoints"]) {
                return Err(Violation::new(
                    "C15",
                    "C15/reset/not_power_on_state",
                    format!("state right after RIS vs a new {}x{} screen: {}", ctx.post.columns, ctx.post.lines, d),
                    ctx.idx,
                ));
            }
            if (0..ctx.post.lines).any(|y| !ctx.post.dirty.contains(&y)) {
                return Err(Violation::new(
                    "C15",
                    "C15/reset/not_all_dirty",
                    format!("after RIS dirty = {:?}, expected every row", ctx.post.dirty),
                    ctx.idx,
                ));
            }
            self.twin = Some(fresh);
            return Ok(());
        }
        if let Some(tw) = self.twin.as_mut() {
            if low == Op::RestoreCursor {
                // the saved-cursor stack is the one thing RIS leaves alone: stop comparing
                self.cov.hit("stop_decrc_in_continuation");
                self.twin = None;
                return Ok(());
            }
            ctx.op.apply(tw);
            self.cov.hit("continuation_steps_compared");
            let ts = Snapshot::take_from(tw, self.twin_prev.as_ref());
            let d = ctx.post.diff(&ts, &["savepoints"]);
            self.twin_prev = Some(ts);
            if let Some(d) = d {
                return Err(Violation::new(
                    "C15",
                    "C15/continuation_diverges",
                    format!(
                        "after RIS the same input must act as on a new screen; after {:?}: {} (left: real, right: new screen)",
                        ctx.op, d
                    ),
                    ctx.idx,
                ));
            }
        }
        Ok(())
    }
}

impl Property for C15 {
    fn id(&self) -> &'static str {
        "C15"
    }
    fn level(&self) -> &'static str {
        "exploration"
    }
    fn rule(&self) -> &'static str {
        "one case = one seeded wiring-Q run: arbitrary history (all actors, faults), then ESC c or Operator reset() - possibly while the recogniser is in the middle of a sequence - then a continuation; at the RIS step a second Screen::new(columns, lines) is created, must equal the real one (savepoints excepted, every row dirty), and from then on every step is applied to both and compared, until a DECRC appears. Non-trivial = run contains a RIS; distinct = distinct (steps, geometry) hash"
    }
    fn assumptions(&self) -> Vec<&'static str> {
        vec![
            "model-free twin: both sides run the real Screen; one parser feeds both",
            "comparison stops at the first DECRC after RIS (the statement excludes it)",
        ]
    }
    fn runs(&self, tier: Tier) -> u64 {
        match tier {
            Tier::Quick => 200_000,
            Tier::Thorough => 2_500_000,
        }
    }
    fn generate(&self, seed: u64, index: u64, _tier: Tier) -> Trace {
        let mut r = Rng::new(seed ^ index.wrapping_mul(0xA24B_AED4_963E_E407)).fork("C15");
        let mut p = Profile::base(any_focus(&mut r));
        p.corrupt_pct = 25;
        p.max_len = 250;
        let mut h = gen::trace("C15", seed, index, &p);
        // continuation: another session, generated for the same geometry family
        let mut p2 = Profile::base(any_focus(&mut r));
        p2.corrupt_pct = 10;
        p2.max_len = 200;
        let t = gen::trace("C15", seed ^ 0xC15C15, index, &p2);
        let ris = match r.below(4) {
            0 => Step::Api(Op::Reset),
            1 => Step::Api(Op::Esc("c".into())),
            _ => Step::Feed(b"\x1bc".to_vec()),
        };
        // sometimes cut the history in the middle of its last chunk (RIS while mid-sequence)
        if r.chance(1, 3) {
            if let Some(pos) = h.steps.iter().rposition(|s| matches!(s, Step::Feed(b) if b.len() > 1)) {
                if let Step::Feed(b) = &mut h.steps[pos] {
                    let k = r.range(1, b.len() as u64 - 1) as usize;
                    b.truncate(k);
                }
                h.steps.truncate(pos + 1);
            }
        }
        // what the program sent last before the reset (from its last ESC on) - programs re-send
        // their setup right after a reset, and a stream reader that remembers "what I did last"
        // must not be fooled by the reset in between
        let mut echo: Option<Vec<u8>> = None;
        if r.chance(1, 3) {
            if let Some(Step::Feed(b)) = h.steps.iter().rev().find(|s| matches!(s, Step::Feed(b) if !b.is_empty())) {
                if let Some(pos) = b.iter().rposition(|x| *x == 0x1b) {
                    if b.len() - pos <= 24 && b.len() - pos >= 2 {
                        echo = Some(b[pos..].to_vec());
                    }
                }
            }
        }
        h.steps.push(ris);
        if r.chance(1, 2) {
            h.steps.push(Step::Apply(100_000));
        }
        if let Some(e) = echo {
            h.steps.push(Step::Feed(e));
        }
        if r.chance(1, 4) {
            // a second RIS with only embedder-side calls in between
            let k = r.range(1, 3);
            let g = gen::Geo { cols: h.columns, lines: h.lines };
            for _ in 0..k {
                match r.below(4) {
                    0 => {
                        let (l, c) = gen::resize_target(&mut r, g, g);
                        h.steps.push(Step::Resize(l, c));
                    }
                    1 => h.steps.push(Step::Paint),
                    _ => h.steps.push(Step::Api(gen::api_op(&mut r, g, Focus::Any))),
                }
            }
            h.steps.push(Step::Feed(b"\x1bc".to_vec()));
            h.steps.push(Step::Apply(100_000));
        }
        h.steps.extend(t.steps.into_iter().filter(|s| !matches!(s, Step::Charset(_)) || h.front == crate::trace::Front::Bytes));
        h.kind = format!("{}+RIS+{}", h.kind, t.kind);
        h
    }
    fn check(&self, trace: &Trace, cov: &mut Coverage) -> Result<(), Violation> {
        let mut obs = Obs15 { cov, twin: None, twin_prev: None, parser_resets: vec![], saw_ris: false };
        let stats = exec::run_q(trace, &mut obs).map(|x| x.0)?;
        let delivered = std::mem::take(&mut obs.parser_resets);
        let had_ris = obs.saw_ris;
        common_cov(cov, &stats);
        cov.nontrivial = Some(had_ris);
        // every ESC c in the stream must reach the screen as a reset, and nothing else may
        crate::props::steps::parser_path("C15", trace, &delivered, owns_reset, cov)?;
        fresh_parser_twin(trace, cov)

    }
    fn owns_panic(&self, op: &str) -> bool {
        op == "reset"
    }
}

/// C15, second twin (wiring P): "from then on the same input produces the same state as on a new
/// screen" - a new screen behind a NEW parser. Whenever a RIS happens at a moment at which the
/// reference recogniser and decoder say the stream reader is in its ground state with nothing
/// pending (always true right after a parser-fed ESC c; for an embedder reset() only between
/// sequences), a fresh front end + Screen::new(current size) is started and fed the rest of the
/// trace in parallel. One parser driving two screens (the first twin) cannot see state that
/// survives RIS *outside* the screen: a decoder tail, a recogniser cache.
fn fresh_parser_twin(trace: &Trace, cov: &mut Coverage) -> Result<(), Violation> {
    use crate::exec::FrontEnd;
    use crate::spec::recog::{Recog, RefDecoder, St};
    use crate::trace::Front;
    use std::sync::{Arc, Mutex};
    let s1 = Arc::new(Mutex::new(Screen::new(trace.columns, trace.lines)));
    let mut fe1 = FrontEnd::new(trace.front, trace.utf8, s1.clone());
    let mut leg2: Option<(FrontEnd<Screen>, Arc<Mutex<Screen>>)> = None;
    let mut rf = Recog::new(trace.utf8);
    let mut dec = RefDecoder::default();
    let mut seen_events = 0usize;
    let (mut prev_a, mut prev_b): (Option<Snapshot>, Option<Snapshot>) = (None, None);
    // "leading BOM ignored": a brand-new byte decoder may swallow a U+FEFF that is the first
    // thing it sees, the running one must not - that one difference is not judged
    let mut fresh_first_text = false;
    let poisoned = || Violation::new("C15", "C15/poisoned", "listener mutex poisoned", 0);
    for (si, step) in trace.steps.iter().enumerate() {
        let mut start_fresh = false;
        match step {
            Step::Feed(b) => {
                exec::set_current_op("feed");
                fe1.feed(b);
                if let Some((fe2, _)) = leg2.as_mut() {
                    fe2.feed(b);
                }
                exec::set_current_op("");
                let text: String = match (trace.front, rf.utf8) {
                    (Front::Chars, _) => String::from_utf8_lossy(b).into_owned(),
                    (Front::Bytes, true) => dec.feed(b),
                    (Front::Bytes, false) => b.iter().map(|x| *x as char).collect(),
                };
                if fresh_first_text && !text.is_empty() {
                    fresh_first_text = false;
                    if trace.front == Front::Bytes && rf.utf8 && text.starts_with('\u{feff}') {
                        cov.hit("lenient_leading_bom");
                        leg2 = None;
                    }
                }
                rf.feed_str(&text);
                if rf.stopped_at.is_some() {
                    cov.hit("stop_fresh_twin_unspecified_grammar");
                    return Ok(());
                }
                let new_events = &rf.events[seen_events.min(rf.events.len())..];
                if new_events.iter().any(|e| *e == Op::RestoreCursor) {
                    leg2 = None; // DECRC in the continuation: the statement excludes it
                }
                if b.as_slice() == b"\x1bc"
                    && rf.st == St::Ground
                    && dec.pending.is_empty()
                    && rf.events.last() == Some(&Op::Reset)
                    && rf.events.len() > seen_events
                {
                    start_fresh = true;
                }
                seen_events = rf.events.len();
            }
            Step::Charset(c) => {
                if !dec.pending.is_empty() {
                    cov.hit("stop_fresh_twin_switch_with_pending_tail");
                    return Ok(());
                }
                fe1.charset(c);
                if let Some((fe2, _)) = leg2.as_mut() {
                    fe2.charset(c);
                }
                match c.as_str() {
                    "@" => rf.utf8 = false,
                    "G" | "8" => rf.utf8 = true,
                    _ => {}
                }
            }
            Step::Apply(_) => {}
            other => {
                let op = match other {
                    Step::Paint => Op::Paint,
                    Step::Display => Op::Display,
                    Step::Resize(l, c) => Op::Resize(Some(*l), Some(*c)),
                    Step::Api(op) => op.clone(),
                    _ => unreachable!(),
                };
                let low = op.lower();
                exec::set_current_op(low.name());
                {
                    let mut g = s1.lock().map_err(|_| poisoned())?;
                    op.apply(&mut g);
                }
                if let Some((_, s2)) = leg2.as_ref() {
                    let mut g = s2.lock().map_err(|_| poisoned())?;
                    op.apply(&mut g);
                }
                exec::set_current_op("");
                if low == Op::RestoreCursor {
                    leg2 = None;
                }
                if low == Op::Reset && rf.st == St::Ground && dec.pending.is_empty() {
                    start_fresh = true;
                }
            }
        }
        if start_fresh {
            let (cols, lines) = {
                let g = s1.lock().map_err(|_| poisoned())?;
                (g.columns, g.lines)
            };
            let s2 = Arc::new(Mutex::new(Screen::new(cols, lines)));
            let fe2 = FrontEnd::new(trace.front, rf.utf8, s2.clone());
            leg2 = Some((fe2, s2));
            fresh_first_text = true;
            cov.hit("fresh_parser_twins_started");
        }
        if let Some((_, s2)) = leg2.as_ref() {
            let a = {
                let g = s1.lock().map_err(|_| poisoned())?;
                Snapshot::take_from(&g, prev_a.as_ref())
            };
            let b = {
                let g = s2.lock().map_err(|_| poisoned())?;
                Snapshot::take_from(&g, prev_b.as_ref())
            };
            cov.hit("fresh_parser_twin_steps_compared");
            let d = a.diff(&b, &["savepoints"]);
            prev_a = Some(a);
            prev_b = Some(b);
            if let Some(d) = d {
                return Err(Violation::new(
                    "C15",
                    "C15/fresh_parser_twin_diverges",
                    format!(
                        "after RIS the same input must produce the same state as a new screen behind a new parser; after step {} ({}): {} (left: real, right: new parser + new screen)",
                        si,
                        match step {
                            Step::Feed(b) => format!("feed {:02x?}", &b[..b.len().min(16)]),
                            o => format!("{:?}", o),
                        },
                        d
                    ),
                    si as u64,
                ));
            }
        }
    }
    Ok(())
}

// ======================================================================================= C17

pub struct C17;

struct Pre17 {
    y: u32,
    top: u32,
    bottom: u32,
    lines: u32,
    columns: u32,
    scnm: bool,
    x: u32,
    awm: bool,
}

struct Obs17<'a> {
    cov: &'a mut Coverage,
    /// the Renderer's framebuffer: updated ONLY for rows found in dirty
    fb: Vec<Rc<Vec<Cell>>>,
    pre: Option<Pre17>,
}

impl<'a> Observer for Obs17<'a> {
    fn init(&mut self, _screen: &Screen, snap: &Snapshot) -> Result<(), Violation> {
        // attach = full paint
        self.fb = snap.grid.clone();
        Ok(())
    }
    fn needs_snap(&self, _actor: Actor, op: &Op, _s: &Screen) -> bool {
        matches!(op, Op::Paint)
    }
    fn before(&mut self, _idx: u64, _actor: Actor, _op: &Op, s: &Screen) {
        let (top, bottom) = s.margins.map(|m| (m.top, m.bottom)).unwrap_or((0, s.lines.saturating_sub(1)));
        self.pre = Some(Pre17 {
            y: s.cursor.y,
            top,
            bottom,
            lines: s.lines,
            columns: s.columns,
            scnm: s.mode.contains(&DECSCNM),
            x: s.cursor.x,
            awm: s.mode.contains(&memterm::modes::DECAWM),
        });
    }
    fn step(&mut self, ctx: &StepCtx) -> Result<(), Violation> {
        let s = ctx.screen;
        if let Some(d) = s.dirty.iter().find(|d| **d >= s.lines) {
            return Err(Violation::new(
                "C17",
                "C17/dirty_index_out_of_range",
                format!("after {:?} dirty contains row {} but the screen has {} lines", ctx.op, d, s.lines),
                ctx.idx,
            ));
        }
        let low = ctx.op.lower();
        let pre = self.pre.take();
        // screen-wide changes must mark every row
        if let Some(p) = pre {
            let scnm_now = s.mode.contains(&DECSCNM);
            let wide: Option<&str> = match &low {
                Op::Reset => Some("reset"),
                Op::AlignmentDisplay => Some("alignment display"),
                Op::Index | Op::Linefeed if p.y == p.bottom => Some("scroll up"),
                Op::ReverseIndex if p.y == p.top => Some("scroll down"),
                Op::Draw(t)
                    if p.x == p.columns
                        && p.awm
                        && p.y == p.bottom
                        && t.chars().next().map(|c| unicode_width::UnicodeWidthChar::width(c).unwrap_or(0) > 0).unwrap_or(false) =>
                {
                    Some("autowrap scroll")
                }
                Op::Resize(..) if (s.lines, s.columns) != (p.lines, p.columns) => Some("resize"),
                Op::SetMode(..) | Op::ResetMode(..) if scnm_now != p.scnm => Some("reverse-video switch"),
                Op::SetMode(..) | Op::ResetMode(..) if s.columns != p.columns => Some("DECCOLM width change"),
                _ => None,
            };
            if let Some(w) = wide {
                self.cov.hit(&format!("screen_wide_{}", w.replace(' ', "_")));
                if let Some(y) = (0..s.lines).find(|y| !s.dirty.contains(y)) {
                    return Err(Violation::new(
                        "C17",
                        format!("C17/not_all_rows_dirty/{}", low.name()),
                        format!("{} ({:?}) must mark every row; row {} is not in dirty = {:?}", w, ctx.op, y, {
                            let mut v: Vec<_> = s.dirty.iter().copied().collect();
                            v.sort();
                            v
                        }),
                        ctx.idx,
                    ));
                }
            }
        }
        if matches!(ctx.op, Op::Paint) {
            // the only correct incremental repaint: rows in dirty are copied, dirty cleared
            let snap = ctx.pre;
            let cols = snap.columns as usize;
            // a renderer reallocates its framebuffer when the size changes; stale rows stay stale
            self.fb.truncate(snap.lines as usize);
            while self.fb.len() < snap.lines as usize {
                self.fb.push(Rc::new(Vec::new())); // unknown content: must be repainted
            }
            for y in snap.dirty.iter() {
                if (*y as usize) < self.fb.len() {
                    self.fb[*y as usize] = Rc::clone(&snap.grid[*y as usize]);
                }
            }
            self.cov.hit("paints");
            for y in 0..snap.lines as usize {
                let same = Rc::ptr_eq(&self.fb[y], &snap.grid[y]) || (self.fb[y].len() == cols && *self.fb[y] == *snap.grid[y]);
                if !same {
                    let x = (0..cols).find(|x| self.fb[y].get(*x) != snap.grid[y].get(*x)).unwrap_or(0);
                    return Err(Violation::new(
                        "C17",
                        "C17/stale_row",
                        format!(
                            "row {} changed since the last paint (cell x={} is now {} but the framebuffer shows {}) and is not in dirty = {:?}",
                            y,
                            x,
                            snap.grid[y].get(x).map(crate::snap::cell_str).unwrap_or_default(),
                            self.fb[y].get(x).map(crate::snap::cell_str).unwrap_or_else(|| "<unpainted>".into()),
                            snap.dirty
                        ),
                        ctx.idx,
                    ));
                }
            }
        }
        Ok(())
    }
}

impl Property for C17 {
    fn id(&self) -> &'static str {
        "C17"
    }
    fn level(&self) -> &'static str {
        "exploration"
    }
    fn rule(&self) -> &'static str {
        "one case = one seeded wiring-Q run with all actors; the Renderer paints at scheduler-chosen moments in one critical section (display, read dirty, repaint those rows, clear dirty); its framebuffer - updated only for rows found in dirty - must equal the full grid after every paint; every dirty index < lines after every step; reset, DECALN, an actual DECSCNM flip, a scroll (IND/LF at the bottom margin, RI at the top, autowrap at the bottom), a DECCOLM width change and a size-changing resize must mark every row. Non-trivial = run with at least one paint; distinct = distinct (steps, geometry) hash"
    }
    fn assumptions(&self) -> Vec<&'static str> {
        vec![
            "model-free: the framebuffer oracle compares the real grid with what an incremental renderer would show",
            "over-approximation of dirty is allowed and never flagged",
            "the embedder clears dirty only in the Renderer's critical section",
        ]
    }
    fn runs(&self, tier: Tier) -> u64 {
        match tier {
            Tier::Quick => 400_000,
            Tier::Thorough => 8_000_000,
        }
    }
    fn generate(&self, seed: u64, index: u64, _tier: Tier) -> Trace {
        let mut r = Rng::new(seed ^ index.wrapping_mul(0xA24B_AED4_963E_E407)).fork("C17");
        let mut p = Profile::base(any_focus(&mut r));
        p.renderer_pct = 100;
        p.corrupt_pct = 25;
        p.kinds = [30, 25, 35, 3, 5, 2];
        p.wiring_p_pct = 30;
        let mut t = gen::trace("C17", seed, index, &p);
        t.steps.push(Step::Paint);
        t
    }
    fn check(&self, trace: &Trace, cov: &mut Coverage) -> Result<(), Violation> {
        let mut obs = Obs17 { cov, fb: Vec::new(), pre: None };
        let stats = exec::run(trace, &mut obs)?;
        common_cov(cov, &stats);
        cov.hit(if trace.wiring == crate::trace::Wiring::P { "runs_wiring_p" } else { "runs_wiring_q" });
        Ok(())
    }
}
