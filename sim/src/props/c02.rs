//! C02 Streaming: the result is independent of how input is chunked (DESIGN 7, grade A).
//! Model-free twin run under wiring P: one feed() of the whole stream vs. a partition of it.

use crate::cov::Coverage;
use crate::exec::{self, NoObs};
use crate::gen::{self, Focus, Profile};
use crate::prng::Rng;
use crate::props::{Property, Tier};
use crate::snap::Snapshot;
use crate::trace::{Front, Step, Trace, Violation, Wiring};

pub struct C02;

/// The trace executed while a second, unrelated terminal (its own parser and screen) is driven
/// on the same thread between the steps: anything the library keeps outside the two objects
/// (statics, thread-locals) shows up as a difference to the undisturbed run.
fn with_neighbour(t: &Trace, noise: &Trace) -> Result<(Snapshot, Vec<String>), Violation> {
    use crate::exec::FrontEnd;
    use memterm::parser_listener::ParserListener;
    use memterm::screen::Screen;
    use std::sync::{Arc, Mutex};
    let s1 = Arc::new(Mutex::new(Screen::new(t.columns, t.lines)));
    let mut f1 = FrontEnd::new(t.front, t.utf8, s1.clone());
    let s2 = Arc::new(Mutex::new(Screen::new(noise.columns, noise.lines)));
    let mut f2 = FrontEnd::new(noise.front, noise.utf8, s2.clone());
    let mut ni = noise.steps.iter();
    let poisoned = || Violation::new("C02", "C02/poisoned", "listener mutex poisoned", 0);
    for st in &t.steps {
        match st {
            Step::Feed(b) => f1.feed(b),
            Step::Charset(c) => f1.charset(c),
            _ => {}
        }
        // the neighbour takes a turn
        for _ in 0..2 {
            match ni.next() {
                Some(Step::Feed(b)) => f2.feed(b),
                Some(Step::Charset(c)) => f2.charset(c),
                Some(Step::Display) | Some(Step::Paint) => {
                    let _ = s2.lock().map_err(|_| poisoned())?.display();
                }
                Some(Step::Api(op)) => {
                    let mut g2 = s2.lock().map_err(|_| poisoned())?;
                    op.apply(&mut g2);
                }
                Some(Step::Resize(l, c)) => s2.lock().map_err(|_| poisoned())?.resize(Some(*l), Some(*c)),
                _ => {}
            }
        }
    }
    let mut g = s1.lock().map_err(|_| poisoned())?;
    let snap = Snapshot::take(&g);
    let shown = g.display();
    Ok((snap, shown))
}

fn final_snapshot(t: &Trace) -> Result<Snapshot, Violation> {
    let (_stats, screen) = exec::run_p(t, &mut NoObs)?;
    let g = screen
        .lock()
        .map_err(|_| Violation::new("C02", "C02/poisoned", "listener mutex poisoned", 0))?;
    Ok(Snapshot::take(&g))
}

/// the same delivered stream in one feed() per decoder-mode segment
fn merged(t: &Trace) -> Trace {
    let mut steps: Vec<Step> = Vec::new();
    for s in &t.steps {
        match s {
            Step::Feed(b) => {
                if let Some(Step::Feed(prev)) = steps.last_mut() {
                    prev.extend_from_slice(b);
                } else {
                    steps.push(Step::Feed(b.clone()));
                }
            }
            o => steps.push(o.clone()),
        }
    }
    let mut t2 = t.clone();
    t2.steps = steps;
    t2
}

fn compare(whole: &Snapshot, cut: &Snapshot, what: &str) -> Result<(), Violation> {
    if let Some(d) = whole.diff(cut, &["savepoint_contents"]) {
        return Err(Violation::new(
            "C02",
            "C02/chunking_changes_state",
            format!("{}: one feed() vs chunked feed() differ: {}", what, d),
            0,
        ));
    }
    Ok(())
}

impl Property for C02 {
    fn id(&self) -> &'static str {
        "C02"
    }
    fn level(&self) -> &'static str {
        "fault_enumeration"
    }
    fn rule(&self) -> &'static str {
        "one case = one delivered stream (after corruption faults) with a chunking; for streams <= 64 bytes every 2-way cut and byte-at-a-time delivery are enumerated (sub-cases counted in cuts_enumerated), longer streams get seeded k-way partitions with empty reads; twin run of the real implementation (one feed vs chunked), full snapshot equality. Non-trivial = stream of >= 2 bytes containing at least one cut; distinct = distinct hash of (stream, cut list, geometry, front end, mode)"
    }
    fn assumptions(&self) -> Vec<&'static str> {
        vec![
            "model-free: both legs run the real ByteParser/Parser + Screen (wiring P)",
            "savepoints are compared by depth, as the statement says",
            "character front end is cut at character boundaries only",
        ]
    }
    fn runs(&self, tier: Tier) -> u64 {
        match tier {
            Tier::Quick => 100_000,
            Tier::Thorough => 2_500_000,
        }
    }
    fn generate(&self, seed: u64, index: u64, _tier: Tier) -> Trace {
        let mut r = Rng::new(seed ^ index.wrapping_mul(0xA24B_AED4_963E_E407)).fork("c02-profile");
        let mut p = Profile::base(*r.pick(&[
            Focus::Any,
            Focus::Any,
            Focus::Grammar,
            Focus::Utf8,
            Focus::Text,
            Focus::Osc,
            Focus::Sgr,
            Focus::Charset,
            Focus::Modes,
        ]));
        p.kinds = [40, 15, 15, 15, 10, 5];
        p.corrupt_pct = 40;
        p.renderer_pct = 0;
        p.resizer_pct = 0;
        p.operator_pct = 0;
        p.wiring_p_pct = 100;
        p.chars_pct = 20;
        p.eightbit_pct = 25;
        p.switch_pct = 8;
        p.max_len = 300;
        p.big_permille = 4;
        let mut t = gen::trace("C02", seed, index, &p);
        if t.bytes_total() <= gen::bound(64) && r.chance(1, 2) {
            t.extra = vec![1];
        }
        t
    }

    fn check(&self, trace: &Trace, cov: &mut Coverage) -> Result<(), Violation> {
        debug_assert!(trace.wiring == Wiring::P);
        let whole_t = merged(trace);
        let whole = final_snapshot(&whole_t)?;
        let chunked = final_snapshot(trace)?;
        cov.add("bytes_fed", trace.bytes_total() as u64);
        cov.states.add(whole.hash());
        let nfeeds = trace.steps.iter().filter(|s| matches!(s, Step::Feed(_))).count();
        cov.add("chunks", nfeeds as u64);
        cov.nontrivial = Some(trace.bytes_total() >= 2 && (nfeeds >= 2 || trace.extra.first() == Some(&1)));
        match (trace.front, trace.utf8) {
            (Front::Chars, _) => cov.hit("front_parser_chars"),
            (Front::Bytes, true) => cov.hit("front_byteparser_utf8"),
            (Front::Bytes, false) => cov.hit("front_byteparser_8bit"),
        }
        compare(&whole, &chunked, "generated partition")?;

        // every 4th case: the same chunked delivery with a neighbouring terminal active on the
        // same thread in between - the result may depend on nothing but the stream
        if (trace.seed ^ trace.index) % 4 == 0 {
            let mut p = Profile::base(Focus::Any);
            p.wiring_p_pct = 100;
            p.corrupt_pct = 20;
            p.max_len = 200;
            let noise = gen::trace("C02-neighbour", trace.seed, trace.index, &p);
            let (snap, shown) = with_neighbour(trace, &noise)?;
            cov.hit("neighbour_terminal_runs");
            if let Some(d) = chunked.diff(&snap, &["savepoint_contents"]) {
                return Err(Violation::new(
                    "C02",
                    "C02/neighbour_terminal_changes_state",
                    format!("the same chunks fed while another terminal was active on the same thread end in a different state: {}", d),
                    0,
                ));
            }
            let strict = snap.render(true);
            let loose = snap.render(false);
            if shown != strict && shown != loose {
                return Err(Violation::new(
                    "C02",
                    "C02/neighbour_terminal_changes_display",
                    format!("display() after running next to another terminal = {:?}, the grid renders as {:?}", shown, strict),
                    0,
                ));
            }
        }

        if trace.extra.first() == Some(&1) {
            // enumerate every 2-way cut of every mode segment, and byte-at-a-time
            let mut seg_idx = 0usize;
            for (si, s) in whole_t.steps.iter().enumerate() {
                let Step::Feed(b) = s else { continue };
                seg_idx += 1;
                let n = b.len();
                let boundary = |i: usize| -> bool { trace.front == Front::Bytes || (b[i] & 0xc0) != 0x80 };
                for k in 1..n {
                    if !boundary(k) {
                        continue;
                    }
                    let mut t = whole_t.clone();
                    t.extra.clear();
                    t.steps[si] = Step::Feed(b[..k].to_vec());
                    t.steps.insert(si + 1, Step::Feed(b[k..].to_vec()));
                    cov.hit("cuts_enumerated");
                    let snap = final_snapshot(&t).map_err(|mut v| {
                        v.concrete = Some(Box::new(t.clone()));
                        v
                    })?;
                    compare(&whole, &snap, &format!("2-way cut at byte {} of segment {}", k, seg_idx)).map_err(
                        |mut v| {
                            v.concrete = Some(Box::new(t.clone()));
                            v
                        },
                    )?;
                }
                // byte at a time (character at a time for the character front end)
                let mut t = whole_t.clone();
                t.extra.clear();
                let mut parts: Vec<Step> = Vec::new();
                let mut start = 0;
                for k in 1..=n {
                    if k == n || boundary(k) {
                        parts.push(Step::Feed(b[start..k].to_vec()));
                        start = k;
                    }
                }
                t.steps.splice(si..=si, parts);
                cov.hit("bytewise_enumerated");
                let snap = final_snapshot(&t).map_err(|mut v| {
                    v.concrete = Some(Box::new(t.clone()));
                    v
                })?;
                compare(&whole, &snap, "byte-at-a-time").map_err(|mut v| {
                    v.concrete = Some(Box::new(t.clone()));
                    v
                })?;
            }
        }
        Ok(())
    }
}
