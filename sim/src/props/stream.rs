//! Stream-reader properties judged on recorded listener events: C03 (recognition conforms to
//! the documented grammar), C11 (streaming UTF-8 decoding / 1:1 8-bit), C19 (OSC title/icon).

use std::sync::{Arc, Mutex};

use memterm::byte_parser::ByteParser;
use memterm::parser::Parser;
use memterm::screen::Screen;

use crate::cov::Coverage;
use crate::gen::{self, FaultCounts, Focus, Profile};
use crate::ops::{LeafTap, Op};
use crate::prng::Rng;
use crate::props::{Property, Tier};
use crate::snap::Snapshot;
use crate::spec::recog::{normalise, Recog, RefDecoder};
use crate::trace::{Front, Step, Trace, Violation, Wiring};

fn first_diff(a: &[Op], b: &[Op]) -> Option<(usize, Option<Op>, Option<Op>)> {
    let n = a.len().max(b.len());
    for i in 0..n {
        if a.get(i) != b.get(i) {
            return Some((i, a.get(i).cloned(), b.get(i).cloned()));
        }
    }
    None
}

/// the characters one chunk delivers (Front::Chars: UTF-8 of the string chunk; Front::Bytes in
/// 8-bit mode: byte -> code point). Front::Bytes in UTF-8 mode is handled on the whole stream.
fn chunk_chars(t: &Trace, b: &[u8]) -> String {
    match (t.front, t.utf8) {
        (Front::Chars, _) => String::from_utf8_lossy(b).into_owned(),
        (Front::Bytes, false) => b.iter().map(|x| *x as char).collect(),
        (Front::Bytes, true) => String::from_utf8_lossy(b).into_owned(),
    }
}

/// all characters the trace delivers to the recogniser
fn delivered_chars(t: &Trace) -> String {
    if t.front == Front::Bytes && t.utf8 {
        let all: Vec<u8> = t
            .steps
            .iter()
            .filter_map(|s| if let Step::Feed(b) = s { Some(b.clone()) } else { None })
            .flatten()
            .collect();
        return String::from_utf8_lossy(&all).into_owned();
    }
    t.steps
        .iter()
        .filter_map(|s| if let Step::Feed(b) = s { Some(chunk_chars(t, b)) } else { None })
        .collect()
}

/// The trace's chunks, truncated after `limit` characters of the delivered stream.
/// (Front::Bytes in UTF-8 mode is only used with valid UTF-8, so the character limit maps to
/// the byte length of the first `limit` characters.)
fn feeds_limited(t: &Trace, limit: usize) -> Vec<Vec<u8>> {
    feeds_limited_bom(t, limit, false)
}

/// `bom_ignored`: the reference string had its leading U+FEFF removed, so `limit` counts
/// characters after it
fn feeds_limited_bom(t: &Trace, limit: usize, bom_ignored: bool) -> Vec<Vec<u8>> {
    let mut out = Vec::new();
    if t.front == Front::Bytes && t.utf8 {
        let all = delivered_chars(t);
        let skip = if bom_ignored { 1 } else { 0 };
        let mut left: usize = all.chars().take(limit + skip).map(|c| c.len_utf8()).sum();
        for s in &t.steps {
            if let Step::Feed(b) = s {
                let take = left.min(b.len());
                out.push(b[..take].to_vec());
                left -= take;
            }
        }
        return out;
    }
    let mut left = limit;
    for s in &t.steps {
        if let Step::Feed(b) = s {
            let cs = chunk_chars(t, b);
            let take: String = cs.chars().take(left).collect();
            left -= take.chars().count();
            match t.front {
                Front::Chars => out.push(take.into_bytes()),
                Front::Bytes => out.push(take.chars().map(|c| c as u32 as u8).collect()),
            }
        }
    }
    out
}

/// events recorded by a leaf-mode listener behind the real front end of the trace. For the
/// character front end the trace's Charset steps (set_use_utf8 between chunks) are replayed at
/// their positions; `feeds` holds one (possibly truncated) entry per Feed step.
fn real_events(t: &Trace, feeds: &[Vec<u8>]) -> Vec<Op> {
    let tap = Arc::new(Mutex::new(LeafTap::new()));
    match t.front {
        Front::Chars => {
            let mut p = Parser::new(tap.clone());
            if !t.utf8 {
                p.set_use_utf8(false);
            }
            let mut fi = 0;
            let mut exhausted = false;
            for st in &t.steps {
                match st {
                    Step::Feed(orig) => {
                        if let Some(f) = feeds.get(fi) {
                            p.feed(String::from_utf8_lossy(f).into_owned());
                            if f.len() < orig.len() {
                                exhausted = true; // comparison stops inside this chunk
                            }
                        }
                        fi += 1;
                    }
                    Step::Charset(c) if !exhausted => match c.as_str() {
                        "@" => p.set_use_utf8(false),
                        "G" | "8" => p.set_use_utf8(true),
                        _ => {}
                    },
                    _ => {}
                }
                if exhausted {
                    break;
                }
            }
        }
        Front::Bytes => {
            let mut p = ByteParser::new(tap.clone());
            if !t.utf8 {
                p.select_other_charset("@");
            }
            for f in feeds {
                p.feed(f);
            }
        }
    }
    let g = tap.lock().unwrap();
    g.inner.events.clone()
}

/// turn a generated byte session into a character-front-end trace
fn to_char_trace(prop: &str, seed: u64, index: u64, r: &mut Rng, p: &Profile) -> Trace {
    let mut base = gen::trace(prop, seed, index, p);
    // collect the delivered bytes, forget the byte-level chunking
    let mut bytes = Vec::new();
    for s in &base.steps {
        if let Step::Feed(b) = s {
            bytes.extend_from_slice(b);
        }
    }
    let raw8 = !base.utf8 && r.chance(1, 3);
    let mut fc = FaultCounts::default();
    let steps: Vec<Step> = if raw8 {
        // ByteParser in 8-bit mode: bytes map 1:1 to code points, any cut is a character cut
        base.front = Front::Bytes;
        gen::cut(r, &bytes, false, &mut fc).into_iter().map(Step::Feed).collect()
    } else {
        base.front = Front::Chars;
        let s: String = if base.utf8 {
            String::from_utf8_lossy(&bytes).into_owned()
        } else {
            bytes.iter().map(|b| *b as char).collect()
        };
        gen::cut(r, s.as_bytes(), true, &mut fc).into_iter().map(Step::Feed).collect()
    };
    base.steps = steps;
    base.wiring = Wiring::P;
    base.faults.extend(fc.v);
    base
}

// ======================================================================================= C03

pub struct C03;

impl Property for C03 {
    fn id(&self) -> &'static str {
        "C03"
    }
    fn level(&self) -> &'static str {
        "exploration"
    }
    fn rule(&self) -> &'static str {
        "one case = one seeded character stream (grammar-aware sessions, byte soup, captured windows; corruption faults on) delivered in seeded chunks to memterm::parser::Parser (or ByteParser in 8-bit mode) with a recording leaf-mode listener; the ordered leaf events (normal form of DESIGN 8.1) must equal those of an independently written explicit-state recogniser; comparison stops at the first character that leaves the documented grammar (counted in stop_*). Non-trivial = stream with at least one non-text event expected; distinct = distinct (stream, chunking, mode) hash; reach_sets.c03_transitions = recogniser (state x character class) transitions covered"
    }
    fn assumptions(&self) -> Vec<&'static str> {
        vec![
            "reference grammar = DESIGN.md 8.1 incl. its 'unspecified -> stop comparing' list",
            "the bounded-exhaustive enumeration mentioned by the quantifier is not claimed (that would be model checking)",
            "ESC % x is consumed without changing the decoder mode",
        ]
    }
    fn runs(&self, tier: Tier) -> u64 {
        match tier {
            Tier::Quick => 1_500_000,
            Tier::Thorough => 20_000_000,
        }
    }
    fn generate(&self, seed: u64, index: u64, _tier: Tier) -> Trace {
        let mut r = Rng::new(seed ^ index.wrapping_mul(0xA24B_AED4_963E_E407)).fork("C03");
        let mut p = Profile::base(*r.pick(&[Focus::Grammar, Focus::Grammar, Focus::Any, Focus::Osc, Focus::Sgr, Focus::Modes, Focus::Charset]));
        p.kinds = [70, 4, 4, 12, 8, 2];
        p.corrupt_pct = 45;
        p.renderer_pct = 0;
        p.resizer_pct = 0;
        p.operator_pct = 0;
        p.chars_pct = 0;
        p.switch_pct = 0;
        p.eightbit_pct = 35;
        p.max_len = 300;
        p.big_permille = 3;
        let mut t = to_char_trace("C03", seed, index, &mut r, &p);
        // set_use_utf8 between chunks (character front end only: the characters themselves do
        // not depend on the mode there, only what the recogniser does with SO/SI and designators)
        if t.front == Front::Chars && r.chance(1, 8) {
            let n = t.steps.len();
            let k = r.range(1, 3);
            for _ in 0..k {
                let pos = r.below(n as u64 + 1) as usize;
                t.steps.insert(pos.min(t.steps.len()), Step::Charset(r.pick(&["@", "G", "8"]).to_string()));
            }
        }
        t
    }
    fn check(&self, trace: &Trace, cov: &mut Coverage) -> Result<(), Violation> {
        let all = delivered_chars(trace);
        let mut rf = Recog::new(trace.utf8);
        let mut switch_stop: Option<usize> = None;
        let mut fed = 0usize;
        for st in &trace.steps {
            match st {
                Step::Feed(b) => {
                    let text = if trace.front == Front::Bytes && trace.utf8 { String::new() } else { chunk_chars(trace, b) };
                    fed += text.chars().count();
                    rf.feed_str(&text);
                }
                Step::Charset(c) if trace.front == Front::Chars => {
                    if rf.st != crate::spec::recog::St::Ground {
                        // which mode governs a sequence that straddles a switch is unspecified
                        switch_stop = Some(fed);
                        cov.hit("stop_mode_switch_inside_a_sequence");
                        break;
                    }
                    match c.as_str() {
                        "@" => rf.utf8 = false,
                        "G" | "8" => rf.utf8 = true,
                        _ => {}
                    }
                    cov.hit("mode_switches_between_chunks");
                }
                _ => {}
            }
            if rf.stopped_at.is_some() {
                break;
            }
        }
        if trace.front == Front::Bytes && trace.utf8 {
            rf.feed_str(&all);
        }
        for (st, cl) in &rf.transitions {
            cov.set_insert("c03_transitions", (*st as u64) * 64 + *cl as u64);
        }
        let limit = rf.stopped_at.or(switch_stop).unwrap_or(usize::MAX);
        if rf.stopped_at.is_some() {
            cov.hit("stop_unspecified_grammar");
            cov.hit(&format!("stop_reason: {}", rf.stop_reason));
        } else if switch_stop.is_none() {
            cov.hit("runs_compared_to_the_end");
        }
        let feeds = feeds_limited(trace, limit);
        let real = real_events(trace, &feeds);
        let want = normalise(&rf.events);
        let got = normalise(&real);
        cov.add("events_compared", want.len() as u64);
        cov.add("chars_fed", all.chars().count().min(limit) as u64);
        if want.iter().any(|e| !matches!(e, Op::Draw(_))) {
            cov.hit("runs_with_non_text_event");
        }
        cov.nontrivial = Some(want.iter().any(|e| !matches!(e, Op::Draw(_))));
        if let Some((i, w, g)) = first_diff(&want, &got) {
            let tag = match (&w, &g) {
                (Some(w), _) => w.name(),
                (None, Some(g)) => g.name(),
                _ => "none",
            };
            return Err(Violation::new(
                "C03",
                format!("C03/events_differ/{}", tag),
                format!(
                    "listener event #{}: documented grammar gives {:?}, parser delivered {:?} (input {:?}{})",
                    i,
                    w,
                    g,
                    all.chars().take(limit.min(80)).collect::<String>(),
                    if rf.stopped_at.is_some() { format!(", compared up to char {}", limit) } else { String::new() }
                ),
                i as u64,
            ));
        }
        Ok(())
    }
}

// ======================================================================================= C11

pub struct C11;

struct Seg {
    utf8: bool,
    /// decoder was reset right before this segment (stream start or after "@")
    fresh: bool,
    feeds: Vec<Vec<u8>>,
}

impl Property for C11 {
    fn id(&self) -> &'static str {
        "C11"
    }
    fn level(&self) -> &'static str {
        "fault_enumeration"
    }
    fn rule(&self) -> &'static str {
        "one case = one seeded byte string (byte soup with every ill-formed UTF-8 shape, text, a few controls) with a chunking and select_other_charset calls between chunks; for strings <= 48 bytes every 2-way cut is enumerated (extra=[1], sub-cases in cuts_enumerated). Twin with the decoder isolated: leg 1 = real ByteParser fed the chunks, leg 2 = real character-level Parser fed std's lossy decoding (maximal-subpart U+FFFD; b as char in 8-bit segments) of each mode segment in one call; both drive a recording listener and the event lists must be equal (one leading U+FEFF per fresh decoder ignored). Distinct = distinct (bytes, chunking, switches) hash"
    }
    fn assumptions(&self) -> Vec<&'static str> {
        vec![
            "std::str::from_utf8 (independent of encoding_rs) is the reference decoder",
            "both legs share the real recogniser, so a difference is attributable to decoding or carry-over alone",
            "a mode switch while an incomplete sequence is pending may drop it or flush it as U+FFFD",
            "an incomplete trailing sequence at the end of the stream is withheld",
        ]
    }
    fn runs(&self, tier: Tier) -> u64 {
        match tier {
            Tier::Quick => 600_000,
            Tier::Thorough => 10_000_000,
        }
    }
    fn generate(&self, seed: u64, index: u64, _tier: Tier) -> Trace {
        let mut r = Rng::new(seed ^ index.wrapping_mul(0xA24B_AED4_963E_E407)).fork("C11");
        let mut p = Profile::base(Focus::Utf8);
        p.kinds = [10, 35, 0, 45, 10, 0];
        p.corrupt_pct = 40;
        p.renderer_pct = 0;
        p.resizer_pct = 0;
        p.operator_pct = 0;
        p.chars_pct = 0;
        p.eightbit_pct = 12;
        p.switch_pct = 25;
        p.wiring_p_pct = 100;
        p.max_len = 400;
        p.big_permille = 4;
        let mut t = gen::trace("C11", seed, index, &p);
        if t.bytes_total() <= gen::bound(48) && r.chance(1, 2) {
            t.extra = vec![1];
        }
        t
    }
    fn check(&self, trace: &Trace, cov: &mut Coverage) -> Result<(), Violation> {
        check_c11(trace, cov)?;
        if trace.extra.first() == Some(&1) {
            // enumerate every 2-way cut of the concatenated stream of every feed run
            let mut merged: Vec<Step> = Vec::new();
            for s in &trace.steps {
                match s {
                    Step::Feed(b) => {
                        if let Some(Step::Feed(prev)) = merged.last_mut() {
                            prev.extend_from_slice(b);
                        } else {
                            merged.push(Step::Feed(b.clone()));
                        }
                    }
                    o => merged.push(o.clone()),
                }
            }
            for (si, s) in merged.iter().enumerate() {
                let Step::Feed(b) = s else { continue };
                for k in 1..b.len() {
                    let mut t = trace.clone();
                    t.extra.clear();
                    t.steps = merged.clone();
                    t.steps[si] = Step::Feed(b[..k].to_vec());
                    t.steps.insert(si + 1, Step::Feed(b[k..].to_vec()));
                    cov.hit("cuts_enumerated");
                    if (b[k] & 0xc0) == 0x80 {
                        cov.hit("cuts_enumerated_mid_scalar");
                    }
                    check_c11(&t, &mut Coverage::default()).map_err(|mut v| {
                        v.concrete = Some(Box::new(t.clone()));
                        v
                    })?;
                }
            }
        }
        Ok(())
    }
}

fn check_c11(trace: &Trace, cov: &mut Coverage) -> Result<(), Violation> {
    // mode segments as the real ByteParser sees them
    let mut segs: Vec<Seg> = vec![Seg { utf8: trace.utf8, fresh: true, feeds: vec![] }];
    for s in &trace.steps {
        match s {
            Step::Feed(b) => segs.last_mut().unwrap().feeds.push(b.clone()),
            Step::Charset(c) => {
                let cur = segs.last().unwrap().utf8;
                match c.as_str() {
                    "@" => segs.push(Seg { utf8: false, fresh: true, feeds: vec![] }),
                    "G" | "8" => {
                        if !cur {
                            segs.push(Seg { utf8: true, fresh: true, feeds: vec![] })
                        }
                    }
                    _ => {}
                }
            }
            _ => {}
        }
    }
    // leg 1: the real ByteParser, chunk by chunk; events collected per segment
    let tap1 = Arc::new(Mutex::new(LeafTap::new()));
    let mut bp = ByteParser::new(tap1.clone());
    if !trace.utf8 {
        bp.select_other_charset("@");
    }
    let mut leg1: Vec<Vec<Op>> = vec![vec![]];
    for s in &trace.steps {
        match s {
            Step::Feed(b) => {
                bp.feed(b);
                let mut g = tap1.lock().unwrap();
                leg1.last_mut().unwrap().extend(g.inner.events.drain(..));
            }
            Step::Charset(c) => {
                let was_utf8 = segs[leg1.len() - 1].utf8;
                bp.select_other_charset(c);
                let mut g = tap1.lock().unwrap();
                leg1.last_mut().unwrap().extend(g.inner.events.drain(..));
                match c.as_str() {
                    "@" => leg1.push(vec![]),
                    "G" | "8" if !was_utf8 => leg1.push(vec![]),
                    _ => {}
                }
            }
            _ => {}
        }
    }
    drop(bp);
    debug_assert_eq!(leg1.len(), segs.len());
    // leg 2: reference decoding of each segment, fed to the real character-level parser
    let mut variants: Vec<Vec<Op>> = Vec::new();
    for (flush_on_switch, strip_leading_bom) in [(false, true), (true, true), (false, false), (true, false)] {
        let tap2 = Arc::new(Mutex::new(LeafTap::new()));
        let mut p = Parser::new(tap2.clone());
        let mut out: Vec<Op> = Vec::new();
        for (i, seg) in segs.iter().enumerate() {
            p.set_use_utf8(seg.utf8);
            let mut text = String::new();
            if seg.utf8 {
                let mut d = RefDecoder::default();
                for f in &seg.feeds {
                    text.push_str(&d.feed(f));
                }
                // "leading BOM ignored": a fresh decoder may or may not swallow it
                if seg.fresh && strip_leading_bom && text.starts_with('\u{feff}') {
                    text = text.chars().skip(1).collect();
                }
                let last = i + 1 == segs.len();
                if !d.pending.is_empty() {
                    cov.hit("probe_incomplete_tail_pending_at_segment_end");
                    if d.pending.len() >= 3 {
                        cov.hit("probe_incomplete_tail_ge_3_bytes");
                    }
                    if !last && flush_on_switch {
                        text.push('\u{fffd}');
                    }
                }
            } else {
                for f in &seg.feeds {
                    text.extend(f.iter().map(|b| *b as char));
                }
            }
            p.feed(text);
            let mut g = tap2.lock().unwrap();
            let evs = normalise(&g.inner.events.drain(..).collect::<Vec<_>>());
            out.extend(evs);
        }
        drop(p);
        variants.push(normalise(&out));
    }
    let mut got: Vec<Op> = Vec::new();
    for (i, evs) in leg1.iter().enumerate() {
        let _ = i;
        got.extend(normalise(evs));
    }
    let got = normalise(&got);
    cov.add("bytes_fed", trace.bytes_total() as u64);
    cov.add("mode_segments", segs.len() as u64);
    cov.nontrivial = Some(trace.bytes_total() >= 2);
    if segs.len() > 1 {
        cov.hit("runs_with_mode_switch");
    }
    if variants[0] != variants[1] {
        cov.hit("lenient_switch_with_pending_tail");
    }
    if variants[0] != variants[2] {
        cov.hit("lenient_leading_bom");
    }
    if variants.iter().any(|v| *v == got) {
        return Ok(());
    }
    let (i, w, g) = first_diff(&variants[0], &got).unwrap();
    let all: Vec<u8> = trace
        .steps
        .iter()
        .filter_map(|s| if let Step::Feed(b) = s { Some(b.clone()) } else { None })
        .flatten()
        .collect();
    Err(Violation::new(
        "C11",
        "C11/decoded_stream_differs",
        format!(
            "event #{}: reference decoding gives {:?}, ByteParser delivered {:?} (bytes {:02x?} in {} chunk(s))",
            i,
            w,
            g,
            &all[..all.len().min(48)],
            trace.steps.iter().filter(|s| matches!(s, Step::Feed(_))).count()
        ),
        i as u64,
    ))
}

// ======================================================================================= C19

pub struct C19;

fn osc_session(r: &mut Rng, utf8: bool) -> Vec<u8> {
    let mut out = Vec::new();
    let n = r.range(1, 6);
    for _ in 0..n {
        match r.below(10) {
            0..=2 => {
                let k = r.range(1, 6);
                for _ in 0..k {
                    gen::push_char(&mut out, gen::text_char(r, Focus::Text), utf8);
                }
            }
            3 => out.extend_from_slice(*r.pick(&[&b"\r\n"[..], b"\n", b"\r", b"\t", b"\x08"])),
            _ => {
                // OSC: introducer, code, ';', payload, terminator
                if r.chance(1, 5) {
                    gen::push_char(&mut out, '\u{9d}', utf8);
                } else {
                    out.extend_from_slice(b"\x1b]");
                }
                out.push(*r.pick(b"0120120123456789lLzA"));
                out.push(b';');
                let k = if r.chance(1, 120) { *r.pick(&[1000u64, 4090, 4096, 4100, 6000]) } else { *r.pick(&[0u64, 0, 1, 2, 3, 5, 8, 13, 21, 40, 70, 130]) };
                for _ in 0..k {
                    match r.below(20) {
                        0 => out.push(b';'),
                        1 => out.push(b'\\'),
                        2 => out.push(b']'),
                        3 => out.push(b' '),
                        4 | 5 => gen::push_char(&mut out, *r.pick(&['é', 'Ω', '世', '\u{301}', '➜', '\u{a0}', 'ÿ']), utf8),
                        6 => {
                            out.push(0x1b);
                            out.push(*r.pick(b"[]a0(c7M"));
                        }
                        7 => out.push(*r.pick(&[1u8, 8, 9, 10, 13, 14, 15, 0x7f, 0, 0x1f])),
                        8 => out.push(*r.pick(b"0123456789")),
                        _ => out.push(*r.pick(b"abcdefghijklmnopqrstuvwxyzC:/-_.~")),
                    }
                }
                match r.below(9) {
                    0..=3 => out.push(7),
                    4..=6 => out.extend_from_slice(b"\x1b\\"),
                    _ => gen::push_char(&mut out, '\u{9c}', utf8),
                }
            }
        }
    }
    out
}

impl Property for C19 {
    fn id(&self) -> &'static str {
        "C19"
    }
    fn level(&self) -> &'static str {
        "exploration"
    }
    fn rule(&self) -> &'static str {
        "one case = one seeded stream of text, C0 controls and OSC strings (both introducers, codes 0-9 and letters, payloads over printable ASCII incl. ; \\ ], non-ASCII, ESC x pairs, C0 controls, all three terminators; corruption in a minority of runs) in a seeded chunking. (a) recorded listener events must equal the reference recogniser's (title/icon events carry exactly the payload); (b) on a real Screen the final title and icon name must equal the last payloads, and grid and cursor must equal those of a twin run fed the same stream with the OSC sequences cut out. Non-trivial = at least one complete OSC; distinct = distinct (stream, chunking, mode) hash"
    }
    fn assumptions(&self) -> Vec<&'static str> {
        vec![
            "reference grammar = DESIGN.md 8.1 (OSC part); comparison stops where the input leaves it",
            "the twin for (b) is model-free: the same real parser+screen without the OSC sequences",
        ]
    }
    fn runs(&self, tier: Tier) -> u64 {
        match tier {
            Tier::Quick => 600_000,
            Tier::Thorough => 10_000_000,
        }
    }
    fn generate(&self, seed: u64, index: u64, _tier: Tier) -> Trace {
        let mut r = Rng::new(seed ^ index.wrapping_mul(0xA24B_AED4_963E_E407)).fork("C19");
        let utf8 = !r.chance(1, 4);
        let mut bytes = osc_session(&mut r, utf8);
        let mut fc = FaultCounts::default();
        if r.chance(1, 5) {
            gen::corrupt(&mut r, &mut bytes, &mut fc);
        }
        let g = gen::geometry(&mut r, 70);
        let raw8 = !utf8 && r.chance(1, 2);
        // ByteParser in UTF-8 mode, cut at arbitrary byte offsets (valid UTF-8 only, so that the
        // decoding is unambiguous and the verdict does not depend on C11's leniencies)
        let bytes_utf8 = utf8 && std::str::from_utf8(&bytes).is_ok() && r.chance(2, 5);
        let (front, steps): (Front, Vec<Step>) = if raw8 || bytes_utf8 {
            (Front::Bytes, gen::cut(&mut r, &bytes, false, &mut fc).into_iter().map(Step::Feed).collect())
        } else {
            let s: String = if utf8 {
                String::from_utf8_lossy(&bytes).into_owned()
            } else {
                bytes.iter().map(|b| *b as char).collect()
            };
            (Front::Chars, gen::cut(&mut r, s.as_bytes(), true, &mut fc).into_iter().map(Step::Feed).collect())
        };
        Trace {
            prop: "C19".into(),
            seed,
            index,
            kind: "OscSession".into(),
            columns: g.cols,
            lines: g.lines,
            front,
            utf8,
            wiring: Wiring::P,
            steps,
            extra: vec![],
            faults: fc.v,
        }
    }
    fn check(&self, trace: &Trace, cov: &mut Coverage) -> Result<(), Violation> {
        let r = check_c19(trace, cov, false);
        if r.is_err() && trace.front == Front::Bytes && trace.utf8 && delivered_chars(trace).starts_with('\u{feff}') {
            // "leading BOM ignored": the byte front end may swallow it
            cov.hit("lenient_leading_bom");
            return check_c19(trace, &mut Coverage::default(), true);
        }
        r
    }
}

fn check_c19(trace: &Trace, cov: &mut Coverage, bom_ignored: bool) -> Result<(), Violation> {
    if trace.front == Front::Bytes && trace.utf8 {
        // this front end is only used with valid UTF-8 (decoding of ill-formed input is C11's)
        let all: Vec<u8> = trace
            .steps
            .iter()
            .filter_map(|s| if let Step::Feed(b) = s { Some(b.clone()) } else { None })
            .flatten()
            .collect();
        if std::str::from_utf8(&all).is_err() {
            cov.hit("stop_invalid_utf8_out_of_domain");
            return Ok(());
        }
    }
    {
        let mut all = delivered_chars(trace);
        if bom_ignored {
            all = all.chars().skip(1).collect();
        }
        let mut rf = Recog::new(trace.utf8);
        rf.feed_str(&all);
        match (trace.front, trace.utf8) {
            (Front::Chars, _) => cov.hit("front_parser_chars"),
            (Front::Bytes, true) => cov.hit("front_byteparser_utf8"),
            (Front::Bytes, false) => cov.hit("front_byteparser_8bit"),
        }
        let mut limit = rf.stopped_at.unwrap_or(all.chars().count());
        if rf.stopped_at.is_some() {
            cov.hit("stop_unspecified_grammar");
        }
        cov.add("osc_sequences_completed", rf.completed_osc as u64);
        if rf.completed_osc > 0 {
            cov.hit("runs_with_complete_osc");
        }
        cov.nontrivial = Some(rf.completed_osc > 0);
        // (a) events
        let feeds = feeds_limited_bom(trace, limit, bom_ignored);
        let real = real_events(trace, &feeds);
        let want = normalise(&rf.events);
        let got = normalise(&real);
        if let Some((i, w, g)) = first_diff(&want, &got) {
            return Err(Violation::new(
                "C19",
                "C19/events_differ",
                format!(
                    "listener event #{}: expected {:?}, parser delivered {:?} (input {:?})",
                    i,
                    w,
                    g,
                    all.chars().take(limit.min(100)).collect::<String>()
                ),
                i as u64,
            ));
        }
        // (b) end to end on a Screen, against a twin without the OSC sequences. An OSC still
        // open at the end is in flight: both legs stop where it started.
        if matches!(rf.st, crate::spec::recog::St::OscCode | crate::spec::recog::St::OscSemi | crate::spec::recog::St::OscStr | crate::spec::recog::St::OscStrEsc)
            || (rf.st == crate::spec::recog::St::Esc)
        {
            limit = limit.min(rf.osc_start);
        }
        let feeds = feeds_limited_bom(trace, limit, bom_ignored);
        let run_screen = |feeds: &[Vec<u8>]| -> Result<Snapshot, Violation> {
            let screen = Arc::new(Mutex::new(Screen::new(trace.columns, trace.lines)));
            match trace.front {
                Front::Chars => {
                    let mut p = Parser::new(screen.clone());
                    if !trace.utf8 {
                        p.set_use_utf8(false);
                    }
                    for f in feeds {
                        p.feed(String::from_utf8_lossy(f).into_owned());
                    }
                }
                Front::Bytes => {
                    let mut p = ByteParser::new(screen.clone());
                    if !trace.utf8 {
                        p.select_other_charset("@");
                    }
                    for f in feeds {
                        p.feed(f);
                    }
                }
            }
            let g = screen.lock().map_err(|_| Violation::new("C19", "C19/poisoned", "mutex poisoned", 0))?;
            Ok(Snapshot::take(&g))
        };
        let with = run_screen(&feeds)?;
        // every 4th case: the same feeds while a neighbouring terminal on the same thread is in
        // the middle of an OSC string of its own - titles are per terminal
        if (trace.seed ^ trace.index) % 4 == 1 {
            let neighbour_screen = Arc::new(Mutex::new(Screen::new(5, 2)));
            let mut neighbour = Parser::new(neighbour_screen.clone());
            neighbour.feed("n\u{1b}]2;neigh".to_string());
            let screen = Arc::new(Mutex::new(Screen::new(trace.columns, trace.lines)));
            {
                let mut fe = crate::exec::FrontEnd::new(trace.front, trace.utf8, screen.clone());
                for (i, f) in feeds.iter().enumerate() {
                    fe.feed(f);
                    neighbour.feed(if i % 2 == 0 { "bour".to_string() } else { "\u{7}\u{1b}]1;x".to_string() });
                }
            }
            let g = screen.lock().map_err(|_| Violation::new("C19", "C19/poisoned", "mutex poisoned", 0))?;
            let beside = Snapshot::take(&g);
            cov.hit("neighbour_terminal_runs");
            if let Some(d) = with.diff(&beside, &[]) {
                return Err(Violation::new(
                    "C19",
                    "C19/neighbour_terminal_changes_state",
                    format!("the same feeds next to another terminal that is inside an OSC string of its own: {}", d),
                    0,
                ));
            }
        }
        let mut title = String::new();
        let mut icon = String::new();
        // replay the reference events that lie before `limit`: recompute on the prefix
        let mut rf2 = Recog::new(trace.utf8);
        rf2.feed_str(&all.chars().take(limit).collect::<String>());
        for e in &rf2.events {
            match e {
                Op::SetTitle(t) => title = t.clone(),
                Op::SetIconName(t) => icon = t.clone(),
                Op::Reset => {
                    title.clear();
                    icon.clear();
                }
                _ => {}
            }
        }
        if with.title != title || with.icon != icon {
            return Err(Violation::new(
                "C19",
                "C19/title_or_icon_wrong",
                format!(
                    "after {:?}: title {:?} (expected {:?}), icon name {:?} (expected {:?})",
                    all.chars().take(limit.min(100)).collect::<String>(),
                    with.title,
                    title,
                    with.icon,
                    icon
                ),
                0,
            ));
        }
        let without: String = all
            .chars()
            .take(limit)
            .enumerate()
            .filter(|(i, _)| !rf2.osc_mask.get(*i).copied().unwrap_or(false))
            .map(|(_, c)| c)
            .collect();
        let without_bytes: Vec<u8> = match (trace.front, trace.utf8) {
            (Front::Bytes, false) => without.chars().map(|c| c as u32 as u8).collect(),
            _ => without.into_bytes(),
        };
        let mut twin = run_screen(&[without_bytes])?;
        twin.title = with.title.clone();
        twin.icon = with.icon.clone();
        if let Some(d) = with.diff(&twin, &[]) {
            return Err(Violation::new(
                "C19",
                "C19/osc_touches_screen",
                format!(
                    "the same stream with and without its OSC strings must leave the same grid and cursor: {} (input {:?})",
                    d,
                    all.chars().take(limit.min(100)).collect::<String>()
                ),
                0,
            ));
        }
        cov.states.add(with.hash());
        Ok(())
    }
}

#[allow(dead_code)]
pub fn debug_c19(trace: &Trace) {
    let all = delivered_chars(trace);
    let mut rf = Recog::new(trace.utf8);
    rf.feed_str(&all);
    eprintln!("all={:?} stopped={:?} st={:?}", all, rf.stopped_at, rf.st);
    let limit = rf.stopped_at.unwrap_or(all.chars().count());
    let feeds = feeds_limited(trace, limit);
    eprintln!("limit={} feeds={:02x?}", limit, feeds);
    eprintln!("real={:?}", real_events(trace, &feeds));
}
