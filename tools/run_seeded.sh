#!/bin/bash
# usage: run_seeded.sh <seeded id> [property ...]   (default: the property the change targets)
# Applies /verif/seeded/<id>/patch.diff to /repo, runs the quick checks, reverts, and then
# replays every reported witness on the clean tree: it must HOLD there (otherwise the
# minimised witness is a false alarm of the oracle).
id="$1"; shift
d=/verif/seeded/$id
props="$@"; [ -z "$props" ] && props=$(python3 -c "import json;print(json.load(open('$d/meta.json'))['property'])")
cd /repo && git checkout -q -- . && git apply "$d/patch.diff" || { echo "$id APPLY-FAIL"; exit 2; }
replays=""
for p in $props; do
  out=$(cd /verif && VERIF_NOEVIDENCE=1 ./check $p quick 2>&1); code=$?
  cls=$(echo "$out" | grep -E "^  class=" | head -2 | cut -c1-260 | tr '\n' '|')
  replays="$replays $(echo "$out" | grep -E '^VIOLATION' | sed 's/.*replay=//')"
  echo "$id $p exit=$code $(echo "$out" | grep -E '^memsim' | sed 's/.*runs=/runs=/') $cls"
done
cd /repo && git checkout -q -- .
# never leave a binary built from the patched tree behind
( cd /verif/sim && cargo build --release --offline >/dev/null 2>&1 )
for r in $replays; do
  res=$(cd /verif && ./check replay "$r" 2>&1 | head -3 | tr '\n' ' ')
  case "$res" in HELD*) ;; *) echo "$id WITNESS-NOT-CLEAN-ON-UNCHANGED-TREE $r :: $res";; esac
done
