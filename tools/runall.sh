#!/bin/sh
# run every registered check at the given tier (default quick); print one line each
tier="${1:-quick}"
cd /verif || exit 2
rc=0
for p in C01 C02 C03 C04 C05 C06 C07 C08 C09 C10 C11 C12 C13 C14 C15 C16 C17 C18 C19 C20; do
  out=$(./check $p "$tier" 2>&1); code=$?
  echo "$out" | grep -E "^(VIOLATION|KNOWN-FINDING|HARNESS|memsim|  class)" | cut -c1-400
  [ $code -ne 0 ] && { echo "  -> exit $code"; rc=1; }
done
exit $rc
