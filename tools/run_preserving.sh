#!/bin/bash
# usage: run_preserving.sh <patch file> [budget seconds]
# Applies a behaviour-preserving change to /repo, runs every quick check (short budget), reverts
# and rebuilds. Every check must stay quiet.
patch="$1"; budget="${2:-12}"
cd /repo && git checkout -q -- . && git apply "$patch" || { echo "APPLY-FAIL $patch"; exit 2; }
for p in C01 C02 C03 C04 C05 C06 C07 C08 C09 C10 C11 C12 C13 C14 C15 C16 C17 C18 C19 C20; do
  out=$(cd /verif && VERIF_NOEVIDENCE=1 VERIF_BUDGET_S=$budget ./check $p quick 2>&1); code=$?
  if [ $code -ne 0 ]; then
    echo "$(basename $(dirname $patch))/$(basename $patch) $p exit=$code $(echo "$out" | grep -E '^  class=|HARNESS' | head -2 | cut -c1-400 | tr '\n' '|')"
  fi
done
echo "$(basename $(dirname $patch))/$(basename $patch) done"
cd /repo && git checkout -q -- .
( cd /verif/sim && cargo build --release --offline >/dev/null 2>&1 )
