#!/bin/bash
# usage: verify_seeded.sh <dir with X.patch.diff / X.demo.rs> <X> [worktree]
# Confirms in a scratch worktree: patch applies to clean HEAD, lib tests still pass (91),
# demo fails with the patch and passes without it.
D="$1"; X="$2"; WT="${3:-/tmp/wt-C01}"
cd "$WT" || exit 2
git checkout -q -- . ; rm -rf tests
if ! git apply --check "$D/$X.patch.diff" 2>/dev/null; then echo "APPLY-FAIL"; exit 1; fi
git apply "$D/$X.patch.diff"
lib=$(cargo test --offline --lib 2>&1 | grep "test result" | head -1)
mkdir -p tests; cp "$D/$X.demo.rs" tests/demo.rs
with=$(cargo test --offline --test demo 2>&1 | grep "test result" | head -1)
git checkout -q -- src
without=$(cargo test --offline --test demo 2>&1 | grep "test result" | head -1)
rm -rf tests parser_log.txt
ok=1
echo "$lib" | grep -q "91 passed; 0 failed" || ok=0
echo "$with" | grep -q "FAILED" || ok=0
echo "$without" | grep -q "ok\." || ok=0
echo "$without" | grep -q " 0 failed" || ok=0
echo "lib=[$lib] with=[$with] without=[$without] => $([ $ok = 1 ] && echo CONFIRMED || echo REJECTED)"
[ $ok = 1 ]
