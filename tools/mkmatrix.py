#!/usr/bin/env python3
"""Builds the seeded-change detection matrix (DESIGN.md section 14.3) from run_seeded.sh output."""
import json, re, sys, os
res = {}
extra = {}
for path in sys.argv[1:]:
    for line in open(path, errors='replace'):
        m = re.match(r'^(C\d\d[a-z]) (C\d\d) exit=(\d)(.*)$', line.strip())
        if m:
            sid, prop, code, rest = m.groups()
            cls = re.search(r'class=(\S+)', rest)
            runs = re.search(r'runs=(\d+)', rest)
            res.setdefault(sid, {})[prop] = (int(code), cls.group(1) if cls else '', runs.group(1) if runs else '')
        m = re.match(r'^(C\d\d[a-z]) WITNESS-NOT-CLEAN', line.strip())
        if m:
            extra[m.group(1)] = 'WITNESS NOT CLEAN'
rows = []
for sid in sorted(os.listdir('/verif/seeded')):
    mp = f'/verif/seeded/{sid}/meta.json'
    if not os.path.exists(mp): continue
    meta = json.load(open(mp))
    r = res.get(sid, {})
    own = meta['property']
    caught = [p for p, (c, _, _) in sorted(r.items()) if c == 1]
    missed = [p for p, (c, _, _) in sorted(r.items()) if c == 0]
    cls = r.get(own, (None, '', ''))[1] or next((v[1] for v in r.values() if v[1]), '')
    summary = (meta.get('summary') or '').replace('|', '/').replace('\n', ' ')
    if len(summary) > 150: summary = summary[:147] + '...'
    status = ', '.join(caught) if caught else ('missed' if r else 'not run')
    if own in missed and caught: status += f' (not {own})'
    rows.append(f"| {sid} | {own} | {summary} | {status} | `{cls}` |")
print("| id | targets | change (author's summary) | caught by (quick tier) | first violation class |")
print("|---|---|---|---|---|")
print('\n'.join(rows))
tot = len(rows); c_own = sum(1 for sid in res if res[sid].get(json.load(open(f'/verif/seeded/{sid}/meta.json'))['property'], (0,))[0] == 1)
print(f"\n{c_own} of {tot} seeded changes are reported by the quick check of the property they target.")
if extra: print("ATTENTION:", extra)
