#!/usr/bin/env python3
"""Regenerates /verif/MANIFEST.json from the table below and validates it."""
import json, subprocess, sys

CLAIMED = {
 "C01": dict(level="exploration", ref="DESIGN.md §7 C01, §2.3",
   technique="deterministic simulation: seeded sessions through a fault-injecting line (cut/empty read/bit flip/drop/dup/noise/truncate/restart) into the real parser+screen with simulated renderer/resizer/operator actors; crash, abort, hang and wedge oracle",
   text="Seeded search over sessions, corruption faults, chunkings and actor interleavings (wiring P and Q, UTF-8 and 8-bit, 1x1..140x40, 3 % up to 300x129); every run must return, leave the mutex unpoisoned, let display() return, and still process a probe stream (BEL CAN BEL CAN ESC c A must put A into cell 0,0). Truncation (program crash) is enumerated at every byte for short sessions; a few per mille of the runs blow one construct up far beyond the usual sizes. The thorough tier first runs an unoptimised build (largest frames on the parser's coroutine stack). Sampling: a clean batch is evidence, not proof.",
   note="Built with overflow-checks and debug-assertions; aborts/stack overflows/hangs are seen by the parent process (signal exit, 20 s watchdog). Allocation failure and sizes beyond 300x129 are out of scope."),
 "C02": dict(level="fault_enumeration", ref="DESIGN.md §7 C02",
   technique="deterministic simulation: twin run of the real implementation under two delivery schedules of the same (fault-mangled) stream; every 2-way cut and byte-at-a-time enumerated for short streams, seeded k-way partitions otherwise",
   text="Model-free twin: the delivered stream fed in one call vs. cut into chunks must end in identical snapshots (cells, cursor, modes, margins, tab stops, titles, charsets, savepoint depth, dirty). For streams <= 64 bytes every 2-way cut and byte-at-a-time delivery are enumerated; longer ones and captured sessions get seeded partitions with empty reads. Parser (chars), ByteParser UTF-8 and 8-bit. Every 4th case is repeated with a second, unrelated terminal driven on the same thread between the chunks (state kept outside the objects); a few per mille of the streams are blown up far beyond the usual sizes (thousands of characters in one OSC, dozens of CSI parameters, kilobytes of ill-formed bytes).",
   note="Wiring P (production ByteParser/Parser + Arc<Mutex<Screen>>); streams are sampled, cut positions enumerated."),
}


SIMQ = "deterministic simulation (wiring Q): the real parser's listener events are applied one by one to the real Screen by a seeded scheduler that interleaves Renderer/Resizer/Operator actors and a fault-injecting line; "
CLAIMED.update({
 "C03": dict(level="exploration", ref="DESIGN.md §7 C03, §8.1",
   technique="deterministic simulation of the stream reader: seeded, fault-mangled character streams in seeded chunkings into the real Parser with a recording listener; history checked against an independent explicit-state reference recogniser",
   text="Grade C (no schedule or fault can change the verdict; the simulator contributes inputs, chunkings and corruption only). Sampled refinement: recorded leaf events (operation, parameters, private flag, merged text) must equal the reference recogniser's; comparison stops where input leaves the documented grammar. Reach reported as (state x class) transitions covered; the bounded-exhaustive enumeration of the quantifier is not claimed.",
   note="Reference grammar and its 'unspecified' list are in DESIGN.md §8.1; runs the shipping cfg(not(test)) recogniser through the shipped dispatch tables."),
 "C04": dict(level="exploration", ref="DESIGN.md §7 C04, §8.3 DRAW",
   technique=SIMQ+"every draw event judged by step relation DRAW re-anchored on the real pre-state",
   text="Grade B. Every draw() reaching the screen (parser fast path, CSI-embedded, Operator multi-character strings) is judged from the real pre-state: affected cells, cursor, nothing else. Pre-states come from interleavings with paints, resizes, mode toggles, IRM, DECAWM off, wide/combining/zero-width characters, 1-column screens.",
   note="unicode-width / unicode-normalization trusted; leniencies of DESIGN.md §8.4 (zero-width at pending wrap, combining on blank cell, multi-char draw with unprintable)."),
 "C05": dict(level="exploration", ref="DESIGN.md §7 C05, §8.3 MOVE",
   technique=SIMQ+"every cursor-movement operation judged by closed-form step relation MOVE",
   text="Grade C (per-operation law; schedule only supplies pre-states, e.g. cursor outside the region after a resize). Raw csi/basic dispatch calls recorded from the real parser are applied through Screen's own dispatch and compared with the documented table + clamping rules; everything else must be unchanged.",
   note="Parameter/cursor/region/DECOM tuples reached are reported in evidence (reach_sets)."),
 "C06": dict(level="exploration", ref="DESIGN.md §7 C06, §8.3 INDEX/IL/DL/STBM",
   technique=SIMQ+"scroll / IL / DL / DECSTBM judged by step relations on distinct-marker grids",
   text="Grade B: violations depend on history (never-written rows, paints, resizes before the operation). Every IND/LF/VT/FF/NEL/RI/IL/DL/DECSTBM is judged row by row against the reference from the real pre-state.",
   note="Leniencies: CSI r cursor, missing DECSTBM edge (DESIGN.md §8.4)."),
 "C07": dict(level="exploration", ref="DESIGN.md §7 C07, §8.3 ED/EL/ECH",
   technique=SIMQ+"erase operations judged by step relations ED/EL/ECH",
   text="Grade C. ED/EL/ECH with every selector class and count class from simulator-reached states (cursor everywhere incl. pending wrap, margins, DECOM, coloured renditions): exactly the documented cells become blank+cursor rendition, all else identical.",
   note="erase_in_display(None) (API only) admits no-op or ED 0."),
 "C08": dict(level="exploration", ref="DESIGN.md §7 C08, §8.3 SGR",
   technique=SIMQ+"SGR judged by an independent fold with its own palette computation",
   text="Grade C. CSI...m and select_graphic_rendition lists (single codes 0..=9999 sampled, all 38/48 forms, truncated and out-of-range tails) folded by the reference; grid must be unchanged. codes_hit / palette indices reported, exhaustiveness not claimed.",
   note="Cells drawn afterwards carrying the rendition is DRAW's clause (C04)."),
 "C09": dict(level="exploration", ref="DESIGN.md §7 C09",
   technique=SIMQ+"well-formedness invariant evaluated after construction and after every atomic step",
   text="Grade A: the invariant must survive resizes and API calls landing between any two parser events. Cursor bounds, margins, dirty indices, display() row count (on a copy), colour strings checked after every step of every run; 30% of runs under the production wiring P (chunk granularity), the rest under wiring Q (event granularity); for short histories one extra resize is enumerated at every operation boundary.",
   note="All fault kinds on; resize >= 1x1; arguments absent or 0..=9999."),
 "C10": dict(level="fault_enumeration", ref="DESIGN.md §7 C10",
   technique="deterministic simulation (wiring Q) of two screens driven by one parser: the same history with and without display() interposed at seeded / enumerated operation boundaries; model-free twin comparison",
   text="Grade A. display() output == rendering recomputed from the grid; snapshot unchanged by display(); the two screens identical after every common step. For histories <= 40 operations every single insertion point is enumerated.",
   note="Histories sampled, insertion points enumerated."),
 "C11": dict(level="fault_enumeration", ref="DESIGN.md §7 C11, §8.2",
   technique="deterministic simulation of the byte stream reader: seeded byte soup in seeded / enumerated chunkings with mode switches between chunks; twin with the decoder isolated (real ByteParser vs real char Parser fed std's lossy decoding)",
   text="Grade A. Events from the real ByteParser must equal those of the real character-level parser fed the reference decoding (std::str::from_utf8 driven incrementally, maximal-subpart U+FFFD, incomplete tail withheld; b as char in 8-bit segments). Every 2-way cut enumerated for strings <= 48 bytes.",
   note="std's decoder trusted, encoding_rs not; leniencies: leading BOM, pending tail at a mode switch."),
 "C12": dict(level="exploration", ref="DESIGN.md §7 C12, §8.3 SM/RM",
   technique=SIMQ+"SM/RM judged by step relations (mode set + per-mode side effects); draws that reach the right edge or run in insert mode, and LF under LNM, judged by the DRAW/LINEFEED step relations",
   text="Grade B. Mode numbers 0..=9999 x private/ANSI x SM/RM, lists, repeats, both Operator spellings, interleaved with DECSC/DECRC, resizes, drawing: mode set and documented side effects (DECCOLM, DECOM, DECSCNM incl. all rows dirty, DECTCEM) and absence of any other effect. IRM/DECAWM/LNM must govern draw and LF whoever changed the mode set last (SM/RM, DECRC, RIS).",
   note="Lists with two or more of DECCOLM/DECOM/DECSCNM are judged on the mode set only."),
 "C13": dict(level="exploration", ref="DESIGN.md §7 C13, §8.3 ICH/DCH",
   technique=SIMQ+"ICH/DCH judged by list-splice step relations on the visible row",
   text="Grade B: hidden cells beyond the edge only show through later edits, paints and grow resizes. Every ICH/DCH judged from the real pre-state; since every later step is judged against the visible pre-state, discarded characters cannot reappear unnoticed. Parser path: the ICH/DCH events the parser delivers must equal the reference recogniser's.",
   note="Vacated cells are the current blank (default attributes, reverse iff DECSCNM)."),
 "C14": dict(level="exploration", ref="DESIGN.md §7 C14, §8.3 SAVE/RESTORE",
   technique=SIMQ+"DECSC/DECRC judged by step relations over the full savepoint stack",
   text="Grade B. save^k ... restore^m around movement, SGR, charsets, mode changes, margins and resizes (which push/pop themselves): LIFO, clamping, one-way DECOM/DECAWM re-enable, empty-stack behaviour; grid, margins, tab stops unchanged. History oracle: a shadow stack of what each DECSC captured must equal the real stack after every operation of every actor.",
   note="Restored pending-wrap column may be C or C-1."),
 "C15": dict(level="exploration", ref="DESIGN.md §7 C15",
   technique="deterministic simulation (wiring Q): at RIS a second Screen::new is spawned and every later step (parser events and foreign actors) is applied to both; model-free twin comparison",
   text="Grade B. After arbitrary histories (faults, all actors, RIS possibly mid-sequence) the state equals a new screen's (savepoints excepted, all rows dirty) and stays equal under the continuation until a DECRC. Second twin under wiring P: a fresh parser + new screen started at every RIS at which the stream reader is in its ground state must stay equal too (catches state surviving RIS outside the screen). Parser path: every ESC c must reach the screen as a reset.",
   note="One parser drives both screens in the first twin; the second twin needs the reference recogniser/decoder to know that the stream reader is in its ground state."),
 "C16": dict(level="exploration", ref="DESIGN.md §7 C16, §8.3 RESIZE",
   technique=SIMQ+"asynchronous resizes at arbitrary event boundaries judged by step relation RESIZE",
   text="Grade A. The Resizer fires between any two parser events (1-4 per run, shrink-then-grow; for short histories one extra resize enumerated at every operation boundary): crop/extend, rows dropped from the top, added area blank, margins reset, cursor inside, all rows dirty, same size = no-op; reappearing content is caught because the added area must be blank. Also owns SM/RM of DECCOLM (the 132-column round trip).",
   note="Tab stops at or beyond min(old, new width) are unconstrained after a width change; those below it must survive."),
 "C17": dict(level="exploration", ref="DESIGN.md §7 C17",
   technique=SIMQ+"framebuffer oracle: an incremental renderer that repaints only dirty rows must always show the real grid",
   text="Grade A. The Renderer paints at scheduler-chosen moments (between queued parser events under wiring Q, between chunks under wiring P - 30% of runs); its framebuffer, updated only for rows in dirty, must equal the grid after every paint; dirty indices < lines; screen-wide changes mark every row.",
   note="Over-approximation of dirty is never flagged."),
 "C18": dict(level="exploration", ref="DESIGN.md §7 C18, §8.3 HTS/TBC/HT",
   technique=SIMQ+"HTS/TBC/HT and RIS defaults judged by step relations",
   text="Grade B: stops set at one width and used at another (resize, DECCOLM in between). HT lands on the nearest stop strictly right of the cursor or the last column; HTS/TBC edit exactly one stop / all; defaults every 8 columns after RIS.",
   note="Stop sets compared on [0, columns) only."),
 "C19": dict(level="exploration", ref="DESIGN.md §7 C19, §8.1",
   technique="deterministic simulation of the stream reader: seeded OSC-heavy streams in seeded chunkings; recorded events vs the reference recogniser, and a model-free twin (same stream without its OSC strings) on the real screen",
   text="Grade C (plus a neighbour-terminal twin: every 4th case is repeated next to another terminal that is inside an OSC string of its own). Title/icon events carry exactly the payload (any text incl. ; \\ ], non-ASCII, ESC x pairs, C0), all three terminators and both introducers, empty payloads, other codes without effect; the payload never reaches the grid or moves the cursor.",
   note="Model-free second half: the same stream with its OSC strings cut out must leave the same grid and cursor."),
 "C20": dict(level="exploration", ref="DESIGN.md §7 C20",
   technique=SIMQ+"DEFINE/SHIFT step relations against reference tables, a translation twin for every draw, and the parser path checked against the reference recogniser",
   text="Grade C. G0/G1 designation and SO/SI judged against reference tables (Latin-1 identity, CP437 from Python's codec, DEC graphics typed from the Linux console map, VAX42 golden copy); every draw compared with drawing the reference translation on an identity-table copy; in 8-bit mode designators/shifts must reach the listener, in UTF-8 mode not. (table, byte) pairs hit reported out of 1024.",
   note="VAX42 and the non-line-drawing DEC entries are a regression check (no independent source offline)."),
})

TITLES = {}
for l in open('/verif/properties.jsonl'):
    p = json.loads(l); TITLES[p['id']] = p['title']

NOT_YET = "check not built yet in this session (work in progress; see DESIGN.md Appendix B build order)"

def main():
    checks = []
    for pid in sorted(CLAIMED):
        c = CLAIMED[pid]
        checks.append({
            "property_id": pid,
            "quick_cmd": f"./check {pid} quick",
            "thorough_cmd": f"./check {pid} thorough",
            "evidence_file": f"/verif/evidence/{pid}.json",
            "replay_cmd_template": "./check replay {path}",
            "engine": "memsim",
            "level_claimed": {"category": c["level"], "text": c["text"], "design_ref": c["ref"]},
            "level_note": c["note"],
            "technique": c["technique"],
        })
    na = [{"property_id": pid, "reason": NOT_YET} for pid in sorted(TITLES) if pid not in CLAIMED]
    m = {
        "version": 1,
        "setup_cmd": "cd /verif/sim && CARGO_NET_OFFLINE=true cargo build --release --offline",
        "hooks": {
            "guard": "memterm_verif",
            "enable": "no hooks are needed: every Screen/Cursor/Savepoint field is public, so the simulator snapshots and rebuilds screens from outside; checks build /repo unmodified as a path dependency of /verif/sim",
            "baseline_off_cmd": "cd /repo && cargo test --workspace --no-fail-fast --offline",
            "source_commits": [],
            "add_only": True,
        },
        "engines": [{
            "name": "memsim",
            "path": "/verif/sim",
            "serves_properties": sorted(CLAIMED),
            "kind_free_text": "hand-written deterministic simulator (Rust): seeded PRNG scheduler over Feeder/Renderer/Resizer/Operator actors, fault-injecting line, two wirings of the real parser+screen, step-relation / invariant / twin-run oracles, delta-debugging minimiser, replay files",
        }],
        "checks": checks,
        "not_applicable": na,
        "notes": "Every check: `./check <id> quick|thorough` rebuilds /verif/sim against /repo's working tree, runs 16 worker processes, writes /verif/evidence/<id>.json, prints VIOLATION/KNOWN-FINDING lines; exit 0/1/2 (2 = harness error). VERIF_SEED selects the seed (default 1). Known findings: /verif/known_findings.json.",
    }
    json.dump(m, open('/verif/MANIFEST.json', 'w'), indent=1)
    r = subprocess.run(['python3-vt', '-c', '''
import json, jsonschema
m = json.load(open("/verif/MANIFEST.json")); s = json.load(open("/root/.vp/MANIFEST.schema.json"))
jsonschema.validate(m, s); print("MANIFEST valid:", len(m["checks"]), "checks,", len(m.get("not_applicable", [])), "not applicable")
'''])
    sys.exit(r.returncode)

main()
