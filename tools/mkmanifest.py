#!/usr/bin/env python3
"""Regenerates /verif/MANIFEST.json from the table below and validates it."""
import json, subprocess, sys

CLAIMED = {
 "C01": dict(level="exploration", ref="DESIGN.md §7 C01, §2.3",
   technique="deterministic simulation: seeded sessions through a fault-injecting line (cut/empty read/bit flip/drop/dup/noise/truncate/restart) into the real parser+screen with simulated renderer/resizer/operator actors; crash, abort, hang and wedge oracle",
   text="Seeded search over sessions, corruption faults, chunkings and actor interleavings (wiring P and Q, UTF-8 and 8-bit, 1x1..140x40); every run must return, leave the mutex unpoisoned, let display() return, and still process a probe stream (BEL CAN BEL CAN ESC c A must put A into cell 0,0). Truncation (program crash) is enumerated at every byte for short sessions. Sampling: a clean batch is evidence, not proof.",
   note="Built with overflow-checks and debug-assertions; aborts/stack overflows/hangs are seen by the parent process (signal exit, 20 s watchdog). Allocation failure and sizes beyond 140x40/132 are out of scope."),
 "C02": dict(level="fault_enumeration", ref="DESIGN.md §7 C02",
   technique="deterministic simulation: twin run of the real implementation under two delivery schedules of the same (fault-mangled) stream; every 2-way cut and byte-at-a-time enumerated for short streams, seeded k-way partitions otherwise",
   text="Model-free twin: the delivered stream fed in one call vs. cut into chunks must end in identical snapshots (cells, cursor, modes, margins, tab stops, titles, charsets, savepoint depth, dirty). For streams <= 64 bytes every 2-way cut and byte-at-a-time delivery are enumerated; longer ones and captured sessions get seeded partitions with empty reads. Parser (chars), ByteParser UTF-8 and 8-bit.",
   note="Wiring P (production ByteParser/Parser + Arc<Mutex<Screen>>); streams are sampled, cut positions enumerated."),
}

TITLES = {}
for l in open('/verif/properties.jsonl'):
    p = json.loads(l); TITLES[p['id']] = p['title']

NOT_YET = "check not built yet in this session (work in progress; see DESIGN.md Appendix B build order)"

def main():
    checks = []
    for pid in sorted(CLAIMED):
        c = CLAIMED[pid]
        checks.append({
            "property_id": pid,
            "quick_cmd": f"./check {pid} quick",
            "thorough_cmd": f"./check {pid} thorough",
            "evidence_file": f"/verif/evidence/{pid}.json",
            "replay_cmd_template": "./check replay {path}",
            "engine": "memsim",
            "level_claimed": {"category": c["level"], "text": c["text"], "design_ref": c["ref"]},
            "level_note": c["note"],
            "technique": c["technique"],
        })
    na = [{"property_id": pid, "reason": NOT_YET} for pid in sorted(TITLES) if pid not in CLAIMED]
    m = {
        "version": 1,
        "setup_cmd": "cd /verif/sim && CARGO_NET_OFFLINE=true cargo build --release --offline",
        "hooks": {
            "guard": "memterm_verif",
            "enable": "no hooks are needed: every Screen/Cursor/Savepoint field is public, so the simulator snapshots and rebuilds screens from outside; checks build /repo unmodified as a path dependency of /verif/sim",
            "baseline_off_cmd": "cd /repo && cargo test --workspace --no-fail-fast --offline",
            "source_commits": [],
            "add_only": True,
        },
        "engines": [{
            "name": "memsim",
            "path": "/verif/sim",
            "serves_properties": sorted(CLAIMED),
            "kind_free_text": "hand-written deterministic simulator (Rust): seeded PRNG scheduler over Feeder/Renderer/Resizer/Operator actors, fault-injecting line, two wirings of the real parser+screen, step-relation / invariant / twin-run oracles, delta-debugging minimiser, replay files",
        }],
        "checks": checks,
        "not_applicable": na,
        "notes": "Every check: `./check <id> quick|thorough` rebuilds /verif/sim against /repo's working tree, runs 16 worker processes, writes /verif/evidence/<id>.json, prints VIOLATION/KNOWN-FINDING lines; exit 0/1/2 (2 = harness error). VERIF_SEED selects the seed (default 1). Known findings: /verif/known_findings.json.",
    }
    json.dump(m, open('/verif/MANIFEST.json', 'w'), indent=1)
    r = subprocess.run(['python3-vt', '-c', '''
import json, jsonschema
m = json.load(open("/verif/MANIFEST.json")); s = json.load(open("/root/.vp/MANIFEST.schema.json"))
jsonschema.validate(m, s); print("MANIFEST valid:", len(m["checks"]), "checks,", len(m.get("not_applicable", [])), "not applicable")
'''])
    sys.exit(r.returncode)

main()
